"""Core of the runtime-monitoring harness: monitors, clauses, case contexts, results.

A *monitor* (one per property) is a set of *clauses*.  A clause is a pair
``gen(rng, i) -> inputs`` / ``check(inputs, c)``: ``gen`` materialises one workload case as a
JSON-serialisable dict, ``check`` drives the real dreye code with it and judges what it
observes through the case context ``c`` (``c.require`` = postcondition of a contract).

Verdicts are three-valued per case: held / violated / inconclusive (+ ``unmet`` when the
property's own precondition excludes the case).
"""
from __future__ import annotations

import hashlib
import json
import math
import os
import traceback
from dataclasses import dataclass, field

import numpy as np


# --------------------------------------------------------------------------- serialisation

def to_jsonable(o):
    if isinstance(o, np.ndarray):
        if o.dtype == object:
            return {"__obj__": [to_jsonable(x) for x in o.tolist()]}
        return {"__nd__": o.tolist(), "dtype": str(o.dtype), "shape": list(o.shape)}
    if isinstance(o, (np.floating,)):
        return float(o)
    if isinstance(o, (np.integer,)):
        return int(o)
    if isinstance(o, (np.bool_,)):
        return bool(o)
    if isinstance(o, dict):
        return {str(k): to_jsonable(v) for k, v in o.items()}
    if isinstance(o, (list, tuple)):
        return [to_jsonable(x) for x in o]
    return o


def from_jsonable(o):
    if isinstance(o, dict):
        if "__nd__" in o:
            return np.array(o["__nd__"], dtype=o["dtype"]).reshape(o["shape"])
        if "__obj__" in o:
            a = np.empty(len(o["__obj__"]), dtype=object)
            for i, x in enumerate(o["__obj__"]):
                a[i] = from_jsonable(x)
            return a
        return {k: from_jsonable(v) for k, v in o.items()}
    if isinstance(o, list):
        return [from_jsonable(x) for x in o]
    return o


def _strict(o):
    """JSON-standard view (non-finite floats become strings) for evidence files."""
    if isinstance(o, float):
        return o if math.isfinite(o) else repr(o)
    if isinstance(o, dict):
        return {k: _strict(v) for k, v in o.items()}
    if isinstance(o, list):
        return [_strict(x) for x in o]
    return o


def strict_json(o):
    return _strict(to_jsonable(o))


def brief(o, maxel=24):
    """Shortened jsonable view of inputs for evidence samples."""
    if isinstance(o, np.ndarray):
        if o.size <= maxel:
            return strict_json(np.round(o, 6) if o.dtype.kind == "f" else o)
        flat = o.ravel()[:maxel]
        return {"shape": list(o.shape), "dtype": str(o.dtype),
                "head": strict_json(np.round(flat, 6) if o.dtype.kind == "f" else flat)["__nd__"]}
    if isinstance(o, dict):
        return {k: brief(v, maxel) for k, v in o.items()}
    if isinstance(o, (list, tuple)):
        if len(o) > maxel:
            return [brief(x, maxel) for x in o[:maxel]] + ["...(%d more)" % (len(o) - maxel)]
        return [brief(x, maxel) for x in o]
    return strict_json(o)


def case_hash(inputs) -> str:
    def rnd(o):
        if isinstance(o, np.ndarray) and o.dtype.kind == "f":
            with np.errstate(all="ignore"):
                return np.where(np.isfinite(o), np.round(o, 9), o)
        if isinstance(o, dict):
            return {k: rnd(v) for k, v in o.items()}
        if isinstance(o, (list, tuple)):
            return [rnd(x) for x in o]
        if isinstance(o, float) and math.isfinite(o):
            return round(o, 9)
        return o
    s = json.dumps(to_jsonable(rnd(inputs)), sort_keys=True, default=str)
    return hashlib.sha1(s.encode()).hexdigest()[:16]


# --------------------------------------------------------------------------- case context

def as_int_container(arr):
    """Integer-valued float64 data (photon counts, integer wavelengths, integer bounds, 0/1 masks) is handed over as an
    int64 array in two out of three cases (chosen by a hash of the values, like the memory layout): the same numbers in
    another dtype must give the same answer, and code that allocates its result `like` the input silently truncates."""
    if not isinstance(arr, np.ndarray) or arr.dtype != np.float64 or arr.size > 200_000 or arr.size < 2:
        return arr
    if not (np.all(np.isfinite(arr)) and np.all(arr == np.round(arr)) and np.all(np.abs(arr) <= 2 ** 24)):
        return arr
    if not np.any(arr != 0):
        return arr          # all-zero defaults (baseline, lower bounds) say nothing about dtype handling
    import zlib
    if (zlib.crc32(np.ascontiguousarray(arr).tobytes()[:4096]) + 7 * int(arr.size)) % 3 == 0:
        return arr
    return arr.astype(np.int64)


_VERIF_ROOT = os.path.dirname(os.path.dirname(os.path.abspath(__file__)))


class CaseAbort(Exception):
    """Raised to end a case early (after a violation / unmet / inconclusive was recorded)."""


class UnderTestRaised(Exception):
    """The code under test raised; carried so monitors can decide what that means."""

    def __init__(self, exc, where):
        super().__init__(f"{type(exc).__name__}: {exc}")
        self.exc = exc
        self.where = where


@dataclass
class Violation:
    clause: str
    what: str
    mechanism: str
    detail: dict


class CaseCtx:
    def __init__(self, clause_name, events=None):
        self.clause = clause_name
        self.violations: list[Violation] = []
        self.inconclusive_why: list[str] = []
        self.unmet_why: list[str] = []
        self.cells: set[str] = set()
        self.is_nontrivial = False
        self.notes: dict = {}
        self.margins: dict[str, float] = {}
        self.checks = 0            # number of postconditions evaluated
        self.events = events if events is not None else []   # hook events seen during this case
        self.distinct_key = None

    # -- bookkeeping
    def cell(self, *names):
        for n in names:
            self.cells.add(str(n))

    def nontrivial(self, cond=True):
        if cond:
            self.is_nontrivial = True

    def note(self, key, value):
        self.notes[key] = value

    def margin(self, name, deviation, tolerance):
        """Record deviation/tolerance head-room (1.0 = at tolerance)."""
        try:
            r = float(deviation) / float(tolerance) if tolerance else float("inf")
        except Exception:
            return
        if not math.isnan(r):
            self.margins[name] = max(self.margins.get(name, 0.0), r)

    # -- verdict pieces
    def require(self, cond, what, mechanism=None, **detail):
        """Postcondition. False => violation (the case continues so later clauses can add)."""
        self.checks += 1
        if not bool(cond):
            self.violations.append(
                Violation(self.clause, what, mechanism or what, strict_json(detail)))
            return False
        return True

    def require_close(self, got, want, what, tol_abs=0.0, tol_rel=0.0, mechanism=None, **detail):
        got = np.asarray(got, dtype=float)
        want = np.asarray(want, dtype=float)
        if got.shape != want.shape:
            return self.require(False, what + " (shape)", mechanism=mechanism,
                                got_shape=list(got.shape), want_shape=list(want.shape), **detail)
        if not np.all(np.isfinite(got)):
            return self.require(False, what + " (non-finite)", mechanism=mechanism,
                                got=brief(got), **detail)
        tol = tol_abs + tol_rel * np.abs(want)
        dev = np.abs(got - want)
        worst = float(np.max(dev - tol)) if dev.size else 0.0
        if dev.size:
            with np.errstate(all="ignore"):
                ratio = np.where(tol > 0, dev / np.where(tol > 0, tol, 1), np.where(dev > 0, np.inf, 0))
            self.margin(what, float(np.max(ratio)), 1.0)
        return self.require(worst <= 0, what, mechanism=mechanism,
                            max_dev=float(np.max(dev)) if dev.size else 0.0,
                            got=brief(got), want=brief(want), **detail)

    def fail(self, what, mechanism=None, **detail):
        self.require(False, what, mechanism=mechanism, **detail)
        raise CaseAbort()

    def inconclusive(self, why, abort=True):
        self.inconclusive_why.append(str(why))
        if abort:
            raise CaseAbort()

    def unmet(self, why, abort=True):
        self.unmet_why.append(str(why))
        if abort:
            raise CaseAbort()

    # -- memory layouts: values are what matters, not strides; every 2-D+ array handed to the code under test through
    #    c.call gets one of three layouts (C, Fortran, strided view), chosen deterministically per call
    relayout = True

    def _layout(self, arr):
        if not (self.relayout and isinstance(arr, np.ndarray) and arr.size > 1 and arr.dtype != object):
            return arr
        arr = self._container(arr)
        if arr.ndim < 2:
            return arr
        # the layout is a function of the values (first 4 kB): the same array passed twice gets the same layout, so
        # bit-level reproducibility checks are not disturbed by summation-order differences between layouts
        import zlib
        mode = (zlib.crc32(np.ascontiguousarray(arr).tobytes()[:4096]) + int(arr.size)) % 3
        if mode == 1:
            self.cells.add("layout=F")
            return np.asfortranarray(arr)
        if mode == 2:
            self.cells.add("layout=strided-view")
            big = np.empty(tuple(2 * s for s in arr.shape), dtype=arr.dtype)
            view = big[tuple(slice(None, None, 2) for _ in arr.shape)]
            view[...] = arr
            return view
        return arr

    def _container(self, arr):
        out = as_int_container(arr)
        if out is not arr:
            self.cells.add("dtype=int64")
        return out

    # -- decoy calls: before the judged call the same function is called with inputs of the same shapes, dtypes, first and
    # last elements but different interior values (result discarded).  Properties hold for every history: an answer must
    # not depend on what was asked before (memoisation keyed by shape / end points / length, buffers reused between calls).
    decoy = False

    @staticmethod
    def _decoy_of(x):
        if not (isinstance(x, np.ndarray) and x.dtype.kind == "f" and x.size >= 3 and np.all(np.isfinite(x))):
            return x, False
        y = np.array(x, dtype=x.dtype, order="K", copy=True)
        if x.ndim == 1 and np.all(np.diff(x) > 0):
            t = (x - x[0]) / (x[-1] - x[0])
            y = x[0] + (x[-1] - x[0]) * t ** 1.37          # still strictly ascending, same end points
            y[0], y[-1] = x[0], x[-1]
            return y.astype(x.dtype), True
        flat = y.reshape(-1)                                # copy for non-contiguous input
        j = np.arange(1, flat.size - 1)
        scale = float(np.mean(np.abs(flat))) or 1.0
        flat[1:-1] = flat[1:-1] * (1.0 + 0.23 * np.sin(1.7 * j)) + 0.11 * scale * np.abs(np.cos(0.9 * j)) * np.sign(flat[1:-1])
        return flat.reshape(x.shape), True

    def _decoy_call(self, fn, a, k):
        da, dk, any_changed = [], {}, False
        for x in a:
            y, ch = self._decoy_of(x)
            da.append(y)
            any_changed |= ch
        for kk, v in k.items():
            y, ch = self._decoy_of(v)
            dk[kk] = y
            any_changed |= ch
        if not any_changed:
            return
        n_ev = len(self.events) if self.events is not None else 0
        try:
            fn(*da, **dk)
        except CaseAbort:
            raise
        except Exception:  # noqa  (the decoy input may be illegitimate: nothing is judged on it)
            pass
        if self.events is not None:
            del self.events[n_ev:]
        self.cells.add("decoy-call")

    # -- purity: arrays handed to the code under test must come back byte-identical
    def _snapshot(self, a, k):
        snap = []
        for name, x in list(enumerate(a)) + list(k.items()):
            if isinstance(x, np.ndarray) and x.dtype != object and x.size <= 2_000_000:
                snap.append((name, x, x.tobytes()))
        return snap

    def _verify_unchanged(self, snap, where):
        for name, x, b in snap:
            if x.tobytes() != b:
                self.require(False, f"{where} never modifies arrays supplied by the caller",
                             mechanism=f"caller-array-modified:{where}", argument=str(name))

    # -- running the code under test
    def call(self, fn, *a, _where=None, _raises_ok=(), **k):
        """Call the code under test.  An exception is a violation of 'returns without
        error' unless its type is in ``_raises_ok`` (then UnderTestRaised is re-raised for
        the monitor to handle)."""
        where = _where or getattr(fn, "__qualname__", getattr(fn, "__name__", str(fn)))
        a = tuple(self._layout(x) for x in a)
        k = {kk: self._layout(v) for kk, v in k.items()}
        if self.decoy:
            self._decoy_call(fn, a, k)
        before = self._snapshot(a, k)
        try:
            res = fn(*a, **k)
            self._verify_unchanged(before, where)
            return res
        except CaseAbort:
            raise
        except BaseException as e:  # noqa
            if isinstance(e, (KeyboardInterrupt, SystemExit, MemoryError)):
                raise
            if _raises_ok and isinstance(e, tuple(_raises_ok)):
                raise UnderTestRaised(e, where)
            tb = traceback.extract_tb(e.__traceback__)
            last = tb[-1] if tb else None
            loc = f"{last.filename.split('/')[-1]}:{last.name}" if last else "?"
            self.fail(f"{where} raised {type(e).__name__}: {str(e)[:200]}",
                      mechanism=f"raise:{where}:{type(e).__name__}:{loc}",
                      traceback=[f"{f.filename}:{f.lineno}:{f.name}" for f in tb[-6:]])

    def try_call(self, fn, *a, **k):
        """Call the code under test, return (ok, value_or_exception) without judging."""
        a = tuple(self._layout(x) for x in a)
        k = {kk: self._layout(v) for kk, v in k.items()}
        try:
            return True, fn(*a, **k)
        except CaseAbort:
            raise
        except (NameError, ImportError) as e:
            # a NameError / UnboundLocalError / ImportError raised by harness or monitor code itself (a typo in a
            # lambda) is a harness error: it must not be taken for an answer of the code under test
            tb = e.__traceback__
            while tb.tb_next is not None:
                tb = tb.tb_next
            if tb.tb_frame.f_code.co_filename.startswith(_VERIF_ROOT):
                raise
            return False, e
        except Exception as e:  # noqa
            return False, e

    @property
    def status(self):
        if self.violations:
            return "violated"
        if self.inconclusive_why:
            return "inconclusive"
        if self.unmet_why:
            return "unmet"
        return "held"


# --------------------------------------------------------------------------- monitor

@dataclass
class Clause:
    name: str
    gen: callable
    check: callable
    weight: int = 1
    min_held: int = 1          # held evaluations required for the run to be conclusive
    enumerated: callable | None = None   # tier -> number of cases in a finite enumeration (or None)
    tiers: tuple = ("quick", "thorough")


@dataclass
class Monitor:
    pid: str
    title: str
    rule: str
    budget: dict                      # tier -> (n_cases, soft_seconds_per_shard)
    anchors: list = field(default_factory=list)        # [(module, qualname)] reach-counted
    deciding: list = field(default_factory=list)       # qualnames that must be entered >= once
    required_cells: dict = field(default_factory=dict)  # tier -> [cell names that must be hit]
    required_events: list = field(default_factory=list)  # hook event kinds that must be seen
    assumptions: list = field(default_factory=list)
    clauses: dict = field(default_factory=dict)
    level: str = "exploration"
    hard_timeout: dict = field(default_factory=lambda: {"quick": 900, "thorough": 7200})
    max_shards: int = 16
    decoy: bool = False       # precede every judged c.call by a decoy call (see CaseCtx._decoy_call); checks may switch it off
    setup: callable | None = None      # called once per shard after dreye import
    exhaustive_claim: str = ""         # non-empty: which finite space this monitor enumerates completely (evidence.exhaustive)

    def add(self, name, gen, check, weight=1, min_held=1, enumerated=None,
            tiers=("quick", "thorough")):
        assert name not in self.clauses
        self.clauses[name] = Clause(name, gen, check, weight, min_held, enumerated, tiers)

    def clause(self, name, weight=1, min_held=1, enumerated=None, tiers=("quick", "thorough")):
        """Decorator form: decorate the *check*; the generator is ``check.gen`` set via
        ``@<check>.gen`` or passed as attribute."""
        def deco(cls):
            self.add(name, cls.gen, cls.check, weight, min_held, enumerated, tiers)
            return cls
        return deco

    @property
    def number(self):
        return int(self.pid[1:])

    def schedule(self, tier):
        """Deterministic weighted round-robin list of clause names."""
        names = [c for c in self.clauses.values() if tier in c.tiers]
        sched = []
        maxw = max(c.weight for c in names)
        for r in range(maxw):
            for c in names:
                if r < c.weight:
                    sched.append(c.name)
        return sched

    def case_plan(self, tier, k):
        """(clause name, per-clause index i) of global case k."""
        sched = self.schedule(tier)
        L = len(sched)
        name = sched[k % L]
        w = sum(1 for s in sched if s == name)
        pos = sum(1 for s in sched[: k % L] if s == name)
        return name, (k // L) * w + pos

    def rng(self, seed, k):
        return np.random.default_rng(np.random.SeedSequence([self.number, int(seed), int(k)]))
