"""known_findings.json: committed list of genuine defects recorded rather than repaired
(status "open": suppresses exactly that mechanism, printed as KNOWN-FINDING) and of repaired
ones (status "fixed": informational, suppresses nothing).  Never written at run time."""
import json
import os

PATH = os.path.join(os.path.dirname(os.path.dirname(os.path.abspath(__file__))), "known_findings.json")


def load():
    try:
        with open(PATH) as f:
            return json.load(f)
    except FileNotFoundError:
        return {"findings": [], "fixed": []}


def entry(kf, pid, mechanism):
    for e in kf.get("findings", []):
        if e.get("property") == pid and e.get("status", "open") == "open" and e.get("key") == mechanism:
            return e
    return None


def is_open(kf, pid, mechanism):
    return entry(kf, pid, mechanism) is not None
