"""known_findings.json: committed list of genuine defects recorded rather than repaired
(status "open": suppresses exactly that mechanism, printed as KNOWN-FINDING) and of repaired
ones (status "fixed": informational, suppresses nothing).  Never written at run time."""
import json
import os

PATH = os.path.join(os.path.dirname(os.path.dirname(os.path.abspath(__file__))), "known_findings.json")


def load():
    try:
        with open(PATH) as f:
            return json.load(f)
    except FileNotFoundError:
        return {"findings": [], "fixed": []}


# a violation seen when a query is repeated in the same state carries this prefix; if the underlying mechanism is a listed
# finding (e.g. a solver status of THAT call) it is the same finding, observed in a second query
PREFIXES = ("second-query-same-state:",)


def entry(kf, pid, mechanism):
    for p in PREFIXES:
        if mechanism.startswith(p):
            mechanism = mechanism[len(p):]
    for e in kf.get("findings", []):
        if e.get("property") == pid and e.get("status", "open") == "open" and e.get("key") == mechanism:
            return e
    return None


def is_open(kf, pid, mechanism):
    return entry(kf, pid, mechanism) is not None
