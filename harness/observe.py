"""In-situ contracts: wrap real dreye functions with universal postconditions ("for every call whose arguments satisfy
P, the result satisfies Q"), rebind every alias of the function in every loaded dreye.* module, count evaluations.

Used by `harness/pytest_contracts.py` to arm the contracts while the repository's own test-suite runs (the suite then acts
as one more workload), and usable from monitors.  A contract never raises into the code under test: it records.
"""
from __future__ import annotations

import functools
import importlib
import sys
import traceback

import numpy as np

from harness import oracles, gen

RECORDS = {"evaluations": {}, "unmet": {}, "violations": [], "errors": []}


def _count(d, k):
    d[k] = d.get(k, 0) + 1


def install(modname, name, post):
    """Wrap `modname.name` with postcondition `post(args, kwargs, result) -> None | 'unmet' | str (violation)`."""
    mod = importlib.import_module(modname)
    orig = getattr(mod, name)
    label = f"{modname.split('.')[-1]}.{name}"

    @functools.wraps(orig)
    def wrapper(*a, **k):
        res = orig(*a, **k)
        try:
            with np.errstate(all="ignore"):
                v = post(a, k, res)
            if v == "unmet":
                _count(RECORDS["unmet"], label)
            else:
                _count(RECORDS["evaluations"], label)
                if v:
                    RECORDS["violations"].append({"contract": label, "what": str(v)[:400]})
        except Exception:  # noqa  -- a bug in the contract, never a verdict
            RECORDS["errors"].append({"contract": label, "tb": traceback.format_exc(limit=4)})
        return res
    wrapper.__wrapped_original__ = orig
    n = 0
    for m in list(sys.modules.values()):
        if m is None or not getattr(m, "__name__", "").startswith("dreye"):
            continue
        for attr, val in list(vars(m).items()):
            if val is orig:
                setattr(m, attr, wrapper)
                n += 1
    return n


# ------------------------------------------------------------------ contracts

def post_capture(a, k, res):
    filters, signals = np.asarray(a[0], float), np.asarray(a[1], float)
    domain = k.get("domain", a[2] if len(a) > 2 else 1.0)
    trapz = k.get("trapz", a[3] if len(a) > 3 else True)
    if not (np.all(np.isfinite(filters)) and np.all(np.isfinite(signals))):
        return "unmet"
    n = filters.shape[-1]
    if np.ndim(domain) == 1 and (len(domain) != n or np.any(np.diff(np.asarray(domain, float)) <= 0)):
        return "unmet"
    w = oracles.domain_weights(np.asarray(domain, float) if np.ndim(domain) else float(domain), n,
                               trapz=trapz if np.ndim(domain) == 0 else True)
    want, mag = oracles.capture_oracle(filters, signals, w)
    got = np.asarray(res)
    if got.shape != want.shape:
        return f"C01 shape {got.shape} != {want.shape}"
    if not np.all(np.abs(got - want) <= 1e-12 * mag + 1e-300):
        return f"C01 value: max dev {float(np.max(np.abs(got - want))):.3e}"
    return None


def post_in_hull_from_A(a, k, res):
    B, A = np.asarray(a[0], float), np.atleast_2d(np.asarray(a[1], float))
    lb = k.get("lb", a[2] if len(a) > 2 else None)
    ub = k.get("ub", a[3] if len(a) > 3 else None)
    K = k.get("K", a[4] if len(a) > 4 else None)
    baseline = k.get("baseline", a[5] if len(a) > 5 else None)
    Mt, c0 = oracles.transform(A, K, baseline)
    m, n = Mt.shape
    if not (2 <= m <= 5 and 1 <= n <= 8) or not np.all(np.isfinite(B)):
        return "unmet"
    lbv, ubv = oracles.bounds_arrays(lb, ub, n)
    got = np.atleast_1d(np.asarray(res))
    Bm = np.atleast_2d(B)
    if got.shape != (len(Bm),):
        return "unmet"
    if np.all(np.isfinite(ubv)) and n >= m:
        Z = oracles.Zonotope(Mt, c0, lbv, ubv)
        if Z.full_dim:
            d = Z.depth(Bm) / Z.extent
            if np.any((d >= 1e-6) & ~got) or np.any((d <= -1e-6) & got):
                return f"C03 exact membership: depths {d[:4]} answers {got[:4]}"
            return None
    scale = float(np.max(np.abs(Bm))) + 1e-300
    for j in np.flatnonzero(got)[:5]:
        t, _ = oracles.lp_feasible_residual(Mt, c0, lbv, ubv, Bm[j])
        if t is not None and t > 1e-6 * scale:
            return f"C03 soundness: accepted target with LP residual {t / scale:.2e}"
    return None


def post_lsq_linear(a, k, res):
    if k.get("model", "gaussian") != "gaussian" or k.get("batch_size", 1) != 1 or not k.get("return_pred", False):
        return "unmet"
    extra = set(k) - {"lb", "ub", "W", "K", "baseline", "n_jobs", "batch_size", "model", "verbose", "return_pred"}
    if extra:
        return "unmet"          # solver keywords given: tolerance regime unknown here
    A, B = np.atleast_2d(np.asarray(a[0], float)), np.atleast_2d(np.asarray(a[1], float))
    lb, ub, W, K, baseline = (k.get(x) for x in ("lb", "ub", "W", "K", "baseline"))
    ok, _ = gen.regime_report(A, lb, ub, K, baseline, B)
    if not ok:
        return "unmet"
    Mt, c0 = oracles.transform(A, K, baseline)
    m, n = Mt.shape
    lbv, ubv = oracles.bounds_arrays(lb, ub, n)
    X, Bp = np.asarray(res[0], float), np.asarray(res[1], float)
    if X.shape != (len(B), n):
        return f"C04 shape {X.shape}"
    for r in range(len(B)):
        w = None if W is None else (np.asarray(W, float) if np.ndim(W) == 1 else np.asarray(W, float)[r])
        xo, eo = oracles.bvls(Mt, c0, lbv, ubv, B[r], w)
        if xo is None:
            continue
        if oracles.werr(Mt, c0, X[r], B[r], w) - eo > 2e-2:
            return f"C04 optimality: gap {oracles.werr(Mt, c0, X[r], B[r], w) - eo:.3e}"
        rng_ = np.where(np.isfinite(ubv), ubv - lbv, np.max(np.abs(xo)) + 1)
        if np.any(X[r] < lbv - 0.01 * rng_) or np.any(X[r] > ubv + 0.01 * rng_):
            return "C04 bounds"
        if not np.all(np.abs(Bp[r] - (Mt @ X[r] + c0)) <= 1e-9 * (np.abs(Mt) @ np.abs(X[r]) + np.abs(c0)) + 1e-12):
            return "C04 prediction"
    return None


H, C, NA = 6.62607015e-34, 299792458.0, 6.02214076e23


def post_irr2flux(a, k, res):
    if k.get("axis") is not None or hasattr(a[0], "units") or hasattr(a[1], "units") or len(a) > 2:
        return "unmet"
    I, wl = np.asarray(a[0], float), np.asarray(a[1], float)
    pre = {None: 1.0, "": 1.0, "milli": 1e3, "micro": 1e6, "nano": 1e9}.get(k.get("prefix"))
    if pre is None or hasattr(res, "units"):
        return "unmet"
    want = I * wl * 1e-9 / (H * C * NA) * pre
    got = np.asarray(res, float)
    if got.shape != np.shape(want) or not np.all(np.abs(got - want) <= 1e-12 * np.abs(want) + 1e-300):
        return "C20 closed form"
    return None


def post_c2s(a, k, res):
    X = np.asarray(a[0], float)
    if X.ndim != 2 or X.shape[1] < 2 or not np.all(np.isfinite(X)):
        return "unmet"
    Y = np.asarray(res, float)
    r = np.linalg.norm(X, axis=1)
    if Y.shape != X.shape or not np.all(np.abs(Y[:, 0] - r) <= 1e-12 * (1 + r)):
        return "C16 radius"
    if np.any(Y[:, 1:-1] < 0) or np.any(Y[:, 1:-1] > np.pi) or np.any(Y[:, -1] < 0) or np.any(Y[:, -1] > 2 * np.pi + 1e-15):
        return "C16 angle ranges"
    return None


def post_equalize(a, k, res):
    domains, arrs = a[0], a[1]
    if k.get("axes") is not None or len(a) > 2 or k.get("stack_axis") is not None:
        return "unmet"
    try:
        D = [np.asarray(d, float) for d in domains]
    except Exception:
        return "unmet"
    if any(d.ndim != 1 or d.size < 2 for d in D):
        return "unmet"
    nd, out = res
    if all(np.array_equal(D[0], d) for d in D):
        return None if np.array_equal(np.asarray(nd), D[0]) else "C19 identical domains changed"
    lo, hi = max(d.min() for d in D), min(d.max() for d in D)
    nd = np.asarray(nd, float)
    if abs(nd[0] - lo) > 1e-12 * (1 + abs(lo)) or abs(nd[-1] - hi) > 1e-12 * (1 + abs(hi)):
        return f"C19 overlap ends: [{nd[0]}, {nd[-1]}] vs [{lo}, {hi}]"
    for d, arr, o in zip(D, arrs, out):
        arr = np.asarray(arr, float)
        order = np.argsort(d)
        want = np.apply_along_axis(lambda v: np.interp(nd, d[order], v[order]), -1, arr)
        if np.shape(o) != want.shape or not np.all(np.abs(np.asarray(o) - want) <= 1e-10 * (1 + np.max(np.abs(arr)))):
            return "C19 interpolation"
    return None


CONTRACTS = [
    ("dreye.api.capture", "calculate_capture", post_capture),
    ("dreye.api.convex", "in_hull_from_A", post_in_hull_from_A),
    ("dreye.api.optimize.lsq_linear", "lsq_linear", post_lsq_linear),
    ("dreye.api.units.convert", "irr2flux", post_irr2flux),
    ("dreye.api.spherical", "cartesian_to_spherical", post_c2s),
    ("dreye.api.domain", "equalize_domains", post_equalize),
]


def install_all():
    out = {}
    for modname, name, post in CONTRACTS:
        out[f"{modname.split('.')[-1]}.{name}"] = install(modname, name, post)
    return out


# ------------------------------------------------------------------ clause factory: the repository's tests as a workload

def add_insitu_clause(M, labels, runtime):
    """Adds to monitor M a one-case clause that runs the repository's own test-suite with the in-situ contracts armed and
    judges the contracts named in `labels` (e.g. 'capture.calculate_capture')."""
    import json
    import os
    import subprocess
    import sys as _sys
    import tempfile

    def gen_(rng, i):
        return {"suite": "tests", "contracts": list(labels)}

    def chk(inp, c):
        out = tempfile.mktemp(prefix="verif_contracts_", suffix=".json")
        env = dict(os.environ, PYTHONPATH=runtime.VERIF_ROOT + os.pathsep + runtime.REPO_ROOT, VERIF_CONTRACTS_OUT=out,
                   VERIF_REPO_ROOT=runtime.REPO_ROOT, MPLBACKEND="Agg", DREYE_VERIF="1")
        r = subprocess.run([_sys.executable, "-W", "ignore", "-m", "pytest", "-q", "--no-header", "-p", "no:cacheprovider",
                            "-p", "harness.pytest_contracts", "--timeout=600", "--continue-on-collection-errors", "tests"],
                           cwd=runtime.REPO_ROOT, env=env, capture_output=True, text=True, timeout=900)
        if not os.path.exists(out):
            c.inconclusive("the test-suite run produced no contract record: " + (r.stdout + r.stderr)[-300:])
        rec = json.load(open(out))
        os.remove(out)
        c.cell("insitu:repo-tests")
        if rec["errors"]:
            c.inconclusive("contract code raised: " + rec["errors"][0]["tb"][-300:])
        n_eval = 0
        for lab in labels:
            n = rec["evaluations"].get(lab, 0)
            n_eval += n
            c.note("evaluations:" + lab, n)
            c.note("precondition_unmet:" + lab, rec["unmet"].get(lab, 0))
            bad = [v for v in rec["violations"] if v["contract"] == lab]
            c.require(not bad, f"contract on {lab} holds on every call made by the repository's own tests",
                      mechanism="insitu:" + lab, first=bad[:2], n_violations=len(bad))
        if n_eval == 0:
            c.inconclusive("no contract evaluation happened under the repository's tests (calls bypass the wrapper?)")
        c.nontrivial(n_eval >= 2)
        c.distinct_key = "insitu:" + ",".join(labels)
    M.add("insitu_repo_tests", gen_, chk, weight=1, min_held=1, enumerated=lambda tier: 1)
