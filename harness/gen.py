"""Workload generators shared by the monitors: spectra, linear systems in/out of the
well-scaled regime of C04, target classes relative to the gamut."""
from __future__ import annotations

import numpy as np

from harness import oracles

K_KINDS = ("none", "scalar", "vector", "matrix")
BASE_KINDS = ("zero", "scalar", "vector")


# ------------------------------------------------------------------ spectra

def make_domain(rng, nd=None, kind=None):
    nd = int(rng.integers(20, 90)) if nd is None else nd
    kind = kind or ["scalar", "uniform", "nonuniform"][rng.integers(3)]
    if kind == "scalar":
        return kind, float([1.0, 2.0, 5.0, 0.5][rng.integers(4)])
    if kind == "uniform":
        return kind, 300.0 + float(rng.uniform(1, 8)) * np.arange(nd)
    d = rng.uniform(0.5, 8, nd - 1)
    return kind, np.concatenate([[300.0], 300.0 + np.cumsum(d)])


def domain_axis(domain, nd):
    return np.arange(nd) * domain if np.ndim(domain) == 0 else np.asarray(domain)


def make_spectra(rng, m, n, domain, nd):
    """Non-negative filters (m, nd) and sources (n, nd) as sums of Gaussians on the domain."""
    x = domain_axis(domain, nd)
    lo, hi = x[0], x[-1]
    span = hi - lo

    def bumps(k, wlo, whi):
        out = np.zeros((k, nd))
        peaks = lo + span * (np.sort(rng.uniform(0.08, 0.92, k)) if k > 1 else rng.uniform(0.2, 0.8, 1))
        for i in range(k):
            w = span * rng.uniform(wlo, whi)
            out[i] = np.exp(-0.5 * ((x - peaks[i]) / w) ** 2)
            if rng.random() < 0.3:  # secondary lobe (beta band)
                out[i] += 0.3 * np.exp(-0.5 * ((x - (lo + span * rng.uniform(0, 1))) / (w * 1.5)) ** 2)
        return out
    filters = bumps(m, 0.08, 0.25)
    sources = bumps(n, 0.03, 0.15) * rng.uniform(0.5, 2.0, (n, 1))
    return filters, sources


# ------------------------------------------------------------------ K / baseline / bounds

def make_K(rng, m, kind):
    if kind == "none":
        return None
    if kind == "scalar":
        return float(rng.uniform(0.2, 5))
    if kind == "vector":
        return rng.uniform(0.3, 3, m)
    while True:
        K = np.eye(m) * rng.uniform(0.5, 2, m) + 0.35 * rng.normal(0, 1, (m, m)) * (1 - np.eye(m))
        if np.linalg.cond(K) <= 20:
            return K


def make_baseline(rng, m, kind, scale):
    if kind == "zero":
        return None if rng.integers(2) else 0.0
    if kind == "scalar":
        return float(rng.uniform(0.02, 0.25) * scale)
    b = rng.uniform(0.0, 0.25, m) * scale
    if m >= 2 and rng.random() < 0.3:          # per-receptor baselines may contain exact zeros
        z = rng.random(m) < 0.4
        z[rng.integers(m)] = True
        z[rng.integers(m)] = False if z.all() else z[rng.integers(m)]
        if not z.all():
            b = np.where(z, 0.0, b)
    return b


def make_bounds(rng, n, lbkind, ubkind, ub_wide=False):
    if ubkind == "inf":
        ub = None if rng.integers(2) else np.full(n, np.inf)
        ubv = np.full(n, np.inf)
    elif ub_wide:
        # the whole range of the regime: upper bounds log-uniform in [0.05, 10] (small intensity units)
        top = float(np.exp(rng.uniform(np.log(0.06), np.log(10))))
        ubv = top * rng.uniform(0.85, 1.0, n)
        ub = ubv
    else:
        ubv = rng.uniform(0.5, 10, n) if rng.integers(4) else np.full(n, float(rng.uniform(0.5, 10)))
        if int(ubv[0] * 1e6) % 8 == 0:
            # integer-valued upper bounds (ub=[1, 2, 1, 3]): handed over as int64 by the harness.  Decided by the drawn
            # values themselves, so that no other generated case changes
            ubv = np.maximum(np.round(ubv), 1.0)
        ub = ubv
    if lbkind == "zero" or (ub_wide and ubkind != "inf" and np.min(ubv) < 0.2):
        lb = None if (rng.integers(2) and ubkind == "inf") else np.zeros(n)
        lbv = np.zeros(n)
    else:
        top = np.where(np.isfinite(ubv), 0.3 * ubv, 1.0)
        lbv = rng.uniform(0.05, np.maximum(top, 0.06), n)
        lb = lbv
    return lb, ub, lbv, ubv


# ------------------------------------------------------------------ linear systems

def cond_rect(Mt):
    s = np.linalg.svd(Mt, compute_uv=False)
    k = min(Mt.shape)
    return float(s[0] / s[k - 1]) if s[k - 1] > 0 else np.inf


def degenerate_source(rng, s, kind):
    """Make one source of the system dict `s` degenerate (in place; bounds become explicit arrays):
    'pinned' - lower bound == upper bound > 0 (a source that cannot be changed), 'off' - lb == ub == 0 (switched off),
    'dark' - its column of A is exactly zero (excites no receptor), 'twin' - a copy of another source's column."""
    A = np.atleast_2d(np.asarray(s["A"], float)).copy()
    m, n = A.shape
    if n < 2:
        return None
    _, _, lbv, ubv = sys_arrays(s)
    lbv, ubv = lbv.copy(), ubv.copy()
    j = int(rng.integers(n))
    if kind in ("pinned", "off"):
        if not np.all(np.isfinite(ubv)):
            return None
        v = 0.0 if kind == "off" else float(lbv[j] + rng.uniform(0.2, 0.8) * (ubv[j] - lbv[j]))
        lbv[j] = ubv[j] = v
        s["lb"], s["ub"] = lbv, ubv
        s["lbkind"] = "pos" if np.any(lbv > 0) else "zero"
    elif kind == "dark":
        A[:, j] = 0.0
        s["A"] = A
    elif kind == "twin":
        k = (j + 1) % n
        A[:, j] = A[:, k]
        s["A"] = A
    s["degenerate"] = kind
    return j


def regime_report(A, lb, ub, K, baseline, B=None):
    """Re-computes C04's 'well-scaled' regime from the arguments.  Returns (ok, info)."""
    Mt, c = oracles.transform(A, K, baseline)
    m, n = Mt.shape
    lbv, ubv = oracles.bounds_arrays(lb, ub, n)
    info = {}
    if np.all(np.isfinite(ubv)):
        rng_ = ubv - lbv
        info["bounds_ok"] = bool(np.all(ubv <= 10 + 1e-12) and np.all(ubv >= 0.05 - 1e-12)
                                 and np.all((lbv == 0) | (lbv >= 0.05 - 1e-12)) and np.all(rng_ > 0))
    else:
        rng_ = np.ones(n)
        info["bounds_ok"] = bool(np.all((lbv == 0) | ((lbv >= 0.05 - 1e-12) & (lbv <= 10))))
    ext = np.sum(np.abs(Mt) * rng_, axis=1)
    info["extent"] = [float(ext.min()), float(ext.max())]
    info["extent_ok"] = bool(ext.min() >= 1 and ext.max() <= 100)
    info["cond"] = cond_rect(Mt)
    info["cond_ok"] = bool(info["cond"] <= 1e3)
    info["targets_ok"] = True
    if B is not None:
        Bm = np.max(np.abs(B)) if np.size(B) else 0.0
        info["targets_ok"] = bool(Bm <= 100 and np.all(np.isfinite(B)))
    ok = info["bounds_ok"] and info["extent_ok"] and info["cond_ok"] and info["targets_ok"]
    return ok, info


def make_system(rng, m=None, n=None, kkind=None, basekind=None, lbkind=None, ubkind="finite",
                nonneg=True, mrange=(1, 5), nrange=(1, 8), under=None, max_tries=200, ub_wide=False, sparse=None):
    """A linear system in the well-scaled regime (by construction + rejection).
    under: None (any), True (n>m), False (n<=m)."""
    for _ in range(max_tries):
        m_ = int(rng.integers(mrange[0], mrange[1] + 1)) if m is None else m
        if n is None:
            if under is True:
                n_ = int(rng.integers(m_ + 1, min(nrange[1], m_ + 3) + 1))
            elif under is False:
                n_ = int(rng.integers(nrange[0], min(m_, nrange[1]) + 1))
            else:
                n_ = int(rng.integers(nrange[0], nrange[1] + 1))
        else:
            n_ = n
        kk = kkind or K_KINDS[rng.integers(4)]
        bk = basekind or BASE_KINDS[rng.integers(3)]
        lk = lbkind or ("zero" if rng.integers(3) else "pos")
        # capture matrix: smooth tuning of receptors over sources + floor, like real spectra
        pr = np.linspace(0, 1, m_) if m_ > 1 else np.array([0.5])
        ps = np.sort(rng.uniform(-0.1, 1.1, n_))
        wid = rng.uniform(0.15, 0.6)
        A = np.exp(-0.5 * ((pr[:, None] - ps[None, :]) / wid) ** 2) + rng.uniform(0.01, 0.1, (m_, n_))
        A *= rng.uniform(0.6, 1.4, (m_, n_))
        if (sparse if sparse is not None else rng.random() < 0.15) and m_ >= 2:
            # exact zeros: some sources do not excite some receptors at all (every row and column keeps an entry)
            Z0 = rng.random((m_, n_)) < 0.3
            Z0[rng.integers(m_, size=n_), np.arange(n_)] = False
            Z0[np.arange(m_), rng.integers(n_, size=m_)] = False
            A = np.where(Z0, 0.0, A)
        if not nonneg:
            A *= rng.choice([-1.0, 1.0], (m_, n_), p=[0.2, 0.8])
        lb, ub, lbv, ubv = make_bounds(rng, n_, lk, ubkind, ub_wide)
        if ub_wide and ubkind != 'inf' and np.min(ubv) < 0.2:
            lk = 'zero'
        K = make_K(rng, m_, kk)
        Mt0, _ = oracles.transform(A, K, None)
        rng_ = np.where(np.isfinite(ubv), ubv - lbv, 1.0)
        ext = np.sum(np.abs(Mt0) * rng_, axis=1)
        target_ext = float(np.exp(rng.uniform(np.log(4), np.log(60))))
        A = A * (target_ext / ext.max())
        base = make_baseline(rng, m_, bk, target_ext)
        ok, info = regime_report(A, lb, ub, K, base)
        if ok:
            return {"A": A, "lb": lb, "ub": ub, "K": K, "baseline": base,
                    "kkind": kk, "basekind": bk, "lbkind": lk, "ubkind": ubkind}
    raise RuntimeError("could not generate a system in the regime")


def sys_arrays(s):
    """(Mt, c, lbv, ubv) of a system dict."""
    Mt, c = oracles.transform(s["A"], s["K"], s["baseline"])
    lbv, ubv = oracles.bounds_arrays(s["lb"], s["ub"], Mt.shape[1])
    return Mt, c, lbv, ubv


def sys_cells(s):
    m, n = np.atleast_2d(s["A"]).shape
    return [f"m={m}", f"n={n}", "K=" + s["kkind"], "baseline=" + s["basekind"], "lb=" + s["lbkind"],
            "ub=" + s["ubkind"], "under" if n > m else ("exact" if n == m else "over")]


# ------------------------------------------------------------------ targets

def interior_x(rng, lbv, ubv, k, margin=0.01):
    """k intensity vectors strictly inside the bounds (>= margin of each range from either end;
    unbounded sources: lb + margin .. lb + few)."""
    n = lbv.size
    span = np.where(np.isfinite(ubv), ubv - lbv, 5.0)
    lo = lbv + margin * span
    hi = np.where(np.isfinite(ubv), ubv - margin * span, lbv + span)
    return rng.uniform(lo, hi, (k, n))


def corner_x(rng, lbv, ubv, k):
    n = lbv.size
    pick = rng.integers(0, 2, (k, n)).astype(bool)
    return np.where(pick, ubv, lbv)


def special_corners(lbv, ubv):
    """black, white, and each single saturated source."""
    n = lbv.size
    out = [lbv.copy(), ubv.copy()]
    for j in range(n):
        x = lbv.copy()
        x[j] = ubv[j]
        out.append(x)
    return np.array(out)


# ------------------------------------------------------------------ estimator with a prescribed A

def spectra_for_A(A):
    """filters (m, m+2), sources (n, m+2) on the scalar-step domain 1.0 whose trapezoid capture
    matrix is exactly A (unit vectors on interior samples, where the trapezoid weight is 1)."""
    A = np.atleast_2d(np.asarray(A, dtype=float))
    m, n = A.shape
    filters = np.zeros((m, m + 2))
    filters[np.arange(m), np.arange(m) + 1] = 1.0
    sources = np.zeros((n, m + 2))
    sources[:, 1:m + 1] = A.T
    return filters, sources


def make_estimator(dreye, s, w=None, with_bounds=True):
    """ReceptorEstimator whose registered system has capture matrix exactly s['A']."""
    filters, sources = spectra_for_A(s["A"])
    kw = {}
    if s.get("K") is not None:
        kw["K"] = s["K"]
    if s.get("baseline") is not None:
        kw["baseline"] = s["baseline"]
    if w is not None:
        kw["w"] = w
    # sampling step of the spectra: a power of two chosen by a hash of A (sources divided by it, exactly), so that the
    # registered capture matrix is still exactly s['A'] while the domain is not always the unit step
    import zlib
    dx = [1.0, 0.5, 2.0, 0.25][zlib.crc32(np.ascontiguousarray(np.asarray(s["A"], float)).tobytes()) % 4]
    sources = sources / dx
    # containers: the small arrays of a system (K, baseline, w, bounds) are array-likes; one system in four (hash of A) gets
    # them as plain (nested) Python lists, otherwise integer-valued bounds get the value-hashed int64 container of c.call
    from .core import as_int_container
    h = zlib.crc32(np.ascontiguousarray(np.asarray(s["A"], float)).tobytes()[::-1])
    as_list = (h % 4 == 1)

    def box(v):
        if isinstance(v, np.ndarray) and v.ndim >= 1 and np.all(np.isfinite(v)):
            return v.tolist() if as_list else as_int_container(v)
        return v
    kw = {k: box(v) for k, v in kw.items()}
    est = dreye.ReceptorEstimator(filters, domain=dx, **kw)
    est.register_system(sources, lb=box(s["lb"]) if with_bounds else None, ub=box(s["ub"]) if with_bounds else None)
    return est


def est_query(c, est, method, B, attrs=None, registered=False, _where=None, use_try=False, _raises_ok=(), **kw):
    """Ask an estimator-level question either with explicit targets, `est.method(B, **kw)`, or - `registered` - in the
    registered-target mode `est.register_targets(B); est.method(**kw)`, where fitting methods return the estimator and
    store their results in the attributes `attrs` (returned here as the tuple the explicit mode would have returned).
    With use_try the call is made with c.try_call and (ok, value) is returned."""
    fn = getattr(est, method)
    where = _where or ("ReceptorEstimator." + method)
    if not registered:
        if use_try:
            return c.try_call(fn, B, **kw)
        return c.call(fn, B, _where=where, _raises_ok=_raises_ok, **kw)
    if np.ndim(B) != 2:
        return est_query(c, est, method, B, attrs, False, _where, use_try, _raises_ok, **kw)
    c.cell("api=register_targets+" + method + "()")
    import zlib
    if zlib.crc32(np.ascontiguousarray(np.asarray(B, float)).tobytes()) % 2:
        # other targets with per-sample weights were registered before: a new registration replaces both (W=None -> w)
        c.cell("prior-targets-with-weights")
        Bo = np.asarray(B, float)[::-1] * 1.1 + 0.3
        c.call(est.register_targets, Bo, W=np.linspace(0.3, 3.0, Bo.size).reshape(Bo.shape), _where="register_targets (earlier)")
    c.call(est.register_targets, B, _where="register_targets")
    if use_try:
        ok, out = c.try_call(fn, **kw)
        if not ok:
            return ok, out
    else:
        out = c.call(fn, _where=where + " (registered targets)", _raises_ok=_raises_ok, **kw)
    if attrs is not None:
        c.require(out is est, "with registered targets the fitting method returns the estimator itself", mechanism="registered-mode-return")
        missing = [a for a in attrs if not hasattr(est, a)]
        if missing:
            c.fail("registered-target mode did not store its results: " + ",".join(missing), mechanism="registered-mode-not-stored")
        out = tuple(np.array(getattr(est, a)) for a in attrs)
    return (True, out) if use_try else out


def near_boundary_targets(rng, Mt, c0, lbv, ubv, inside_pool, scale, k=3):
    """Targets just outside / just inside the gamut of ANY configuration (bounded, unbounded, flat): bisect with the LP
    oracle between an interior capture and an outside point, then step by {1e-3,1e-4,1e-5}*scale along the segment.
    Returns list of (target, class) with class in {'near-outside', 'near-inside'}."""
    m = Mt.shape[0]
    out = []
    for _ in range(k):
        b_in = inside_pool[rng.integers(len(inside_pool))]
        b_out = b_in + rng.normal(0, 1, m) * scale
        t, _x = oracles.lp_feasible_residual(Mt, c0, lbv, ubv, b_out)
        if t is None or t <= 1e-3 * scale:
            continue
        lo, hi = 0.0, 1.0
        ok = True
        for _it in range(34):
            mid = 0.5 * (lo + hi)
            tm, _x = oracles.lp_feasible_residual(Mt, c0, lbv, ubv, b_in + mid * (b_out - b_in))
            if tm is None:
                ok = False
                break
            if tm > 1e-12 * scale:
                hi = mid
            else:
                lo = mid
        if not ok:
            continue
        d = (b_out - b_in) / np.linalg.norm(b_out - b_in)
        cross = b_in + hi * (b_out - b_in)
        step = [1e-3, 1e-4, 1e-5][rng.integers(3)] * scale
        out.append((cross + step * d, "near-outside"))
        out.append((cross - step * d, "near-inside"))
    return out


# ------------------------------------------------------------------ re-registration on a live estimator (stale-state workloads)

REREG_OPS = ("register_adaptation", "register_baseline", "register_bounds", "register_system_adaptation",
             "register_background_adaptation")


def reregister(rng, est, s, op=None, matrix_ok=True):
    """Apply one registration call to the live estimator `est` (built by make_estimator from system dict `s`) and
    return (op, new system dict) describing the values that are registered afterwards (documented update rules)."""
    A = np.atleast_2d(s["A"])
    m, n = A.shape
    t = dict(s)
    op = op or REREG_OPS[rng.integers(len(REREG_OPS))]
    base = np.zeros(m) if s["baseline"] is None else np.broadcast_to(np.asarray(s["baseline"], float), (m,)).astype(float)
    if op == "register_adaptation":
        kk = ["scalar", "vector", "matrix"][rng.integers(3 if matrix_ok else 2)]
        K = make_K(rng, m, kk)
        est.register_adaptation(K.copy() if isinstance(K, np.ndarray) else K)
        t["K"], t["kkind"] = K, kk
    elif op == "register_baseline":
        b = rng.uniform(0.0, 0.3, m) * float(np.max(np.abs(base)) + np.max(A))
        est.register_baseline(b.copy())
        t["baseline"], t["basekind"] = b, "vector"
    elif op == "register_bounds":
        _, _, lbv, ubv = sys_arrays(s)
        new_ub = np.where(np.isfinite(ubv), ubv * rng.uniform(0.4, 0.9, n), rng.uniform(1, 5, n))
        new_lb = np.where(rng.random(n) < 0.5, 0.0, 0.1 * new_ub)
        est.register_bounds(lb=new_lb.copy(), ub=new_ub.copy())
        t["lb"], t["ub"], t["lbkind"], t["ubkind"] = new_lb, new_ub, "pos" if np.any(new_lb > 0) else "zero", "finite"
    elif op == "register_system_adaptation":
        x = rng.uniform(0.2, 1.5, n)
        est.register_system_adaptation(x.copy())
        t["K"], t["kkind"] = 1.0 / (A @ x + base), "vector"
    else:
        bg = np.zeros(m + 2)
        bg[1:m + 1] = rng.uniform(0.2, 2.0, m) * float(np.mean(A)) * n
        bg[0], bg[-1] = rng.uniform(0, 1, 2)           # end samples do not overlap any filter
        est.register_background_adaptation(bg.copy())
        dx = float(np.asarray(est.domain)) if np.ndim(est.domain) == 0 else 1.0     # scalar sampling step of make_estimator
        t["K"], t["kkind"] = 1.0 / (bg[1:m + 1] * dx + base), "vector"
    return op, t


def live_or_new(c, dreye, inp, **kw):
    """The estimator a check should query: an estimator with a history when the workload provides one
    (re-registration clauses set inp['_live_estimator']), else a fresh one built from the system dict."""
    est = inp.get("_live_estimator")
    if est is not None:
        return est
    return c.call(make_estimator, dreye, inp, _where="ReceptorEstimator+register_system", **kw)


def rereg_check(c, dreye, inp, first_query, check, matrix_ok=True, retarget=None):
    """Generic stale-state workload: build an estimator from `inp`, run `first_query(est)`, apply one registration call
    (seeded by inp['rereg_seed']), then run `check(new_inp, c)` against the SAME estimator with the new registered values."""
    est = c.call(make_estimator, dreye, inp, _where="ReceptorEstimator+register_system")
    swapped = {}
    if int(inp["rereg_seed"]) % 3 == 0:
        # the first query asks about OTHER targets of the same shape (a result remembered per shape / per system would
        # answer the judged query with them); first_query reads the targets from `inp` when it is called
        from .core import CaseCtx
        for key in ("B", "b", "extra"):
            v = inp.get(key)
            d, changed = CaseCtx._decoy_of(v) if isinstance(v, np.ndarray) and v.size >= 3 else (v, False)
            if changed:
                swapped[key] = v
                inp[key] = d
        if swapped:
            c.cell("first-query=other-targets")
    try:
        c.try_call(first_query, est)
    finally:
        inp.update(swapped)
    if int(inp["rereg_seed"]) % 2 == 0:
        # asking again in the SAME state (the first query may have left something behind): judged like any other answer
        c.cell("rereg=none(ask-twice)")
        same = dict(inp)
        same["_live_estimator"] = est
        check(same, c)
        if c.violations:
            for v in c.violations:
                v.mechanism = "second-query-same-state:" + v.mechanism
            return None
    rr = np.random.default_rng(int(inp["rereg_seed"]))
    ok, res = c.try_call(reregister, rr, est, inp, None, matrix_ok)
    if not ok:
        c.fail(f"registration call raised {type(res).__name__}: {str(res)[:100]}", mechanism="rereg-raised")
    op, t = res
    c.cell("rereg=" + op)
    t = dict(t)
    if retarget is not None:
        retarget(t, rr)         # e.g. a new target that meets the property's precondition for the NEW registered system
    t["_live_estimator"] = est
    return check(t, c)
