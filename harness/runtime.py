"""Loads the code under test from /repo's *working tree* and installs the Python-level
instrumentation: hook sink (DREYE_VERIF=1) and sys.monitoring reach counters."""
from __future__ import annotations

import importlib
import os
import sys
import warnings

VERIF_ROOT = os.path.dirname(os.path.dirname(os.path.abspath(__file__)))
REPO_ROOT = os.path.abspath(os.environ.get("VERIF_REPO_ROOT", "/repo"))
GUARD = "DREYE_VERIF"

_loaded = None
EVENTS: list = []        # hook events of the current case (cleared by the shard per case)
EVENT_COUNTS: dict = {}  # kind -> count over the whole shard


def _sink(kind, fields):
    EVENTS.append((kind, fields))
    EVENT_COUNTS[kind] = EVENT_COUNTS.get(kind, 0) + 1


def load_dreye():
    """Import dreye from REPO_ROOT (never from an installed copy) with hooks enabled."""
    global _loaded
    if _loaded is not None:
        return _loaded
    os.environ[GUARD] = "1"
    os.environ.setdefault("MPLBACKEND", "Agg")
    os.environ.setdefault("OMP_NUM_THREADS", "1")
    os.environ.setdefault("OPENBLAS_NUM_THREADS", "1")
    os.environ.setdefault("MKL_NUM_THREADS", "1")
    warnings.filterwarnings("ignore", category=SyntaxWarning)
    if sys.path[0] != REPO_ROOT:
        sys.path.insert(0, REPO_ROOT)
    import dreye  # noqa
    f = os.path.abspath(dreye.__file__)
    if not f.startswith(REPO_ROOT + os.sep):
        raise RuntimeError(f"dreye imported from {f}, expected under {REPO_ROOT}")
    try:
        hv = importlib.import_module("dreye.api._verif")
        if getattr(hv, "ENABLED", False):
            hv.SINKS.append(_sink)
    except ImportError:
        pass
    _loaded = dreye
    return dreye


def hooks_present():
    try:
        hv = importlib.import_module("dreye.api._verif")
        return bool(getattr(hv, "ENABLED", False))
    except ImportError:
        return False


# --------------------------------------------------------------------------- reach counters

class Reach:
    """sys.monitoring based reach evidence: per anchored function, number of entries and the
    set of executed lines.  LINE events are disabled per location after the first hit, so the
    cost is one callback per distinct line; PY_START stays on (counts)."""

    def __init__(self):
        self.mon = getattr(sys, "monitoring", None)
        self.tool = None
        self.codes = {}      # code -> label
        self.calls = {}      # label -> count
        self.lines = {}      # label -> set(lineno)
        self.all_lines = {}  # label -> set of statement lines in the code object

    def start(self, anchors):
        if self.mon is None:
            return
        mon = self.mon
        for tid in (mon.PROFILER_ID, mon.COVERAGE_ID, 4, 3):
            try:
                mon.use_tool_id(tid, "dreye-verif-reach")
                self.tool = tid
                break
            except ValueError:
                continue
        if self.tool is None:
            return
        E = mon.events
        mon.register_callback(self.tool, E.PY_START, self._on_start)
        mon.register_callback(self.tool, E.LINE, self._on_line)
        for modname, qual in anchors:
            try:
                obj = importlib.import_module(modname)
                for part in qual.split("."):
                    obj = getattr(obj, part)
                obj = getattr(obj, "__wrapped_original__", obj)
                if isinstance(obj, property):
                    obj = obj.fget
                code = obj.__code__
            except Exception:
                continue
            label = f"{modname.split('.')[-1]}.{qual}"
            self.codes[code] = label
            self.calls.setdefault(label, 0)
            self.lines.setdefault(label, set())
            self.all_lines[label] = {ln for (_, _, ln) in code.co_lines() if ln is not None and ln > code.co_firstlineno}
            mon.set_local_events(self.tool, code, E.PY_START | E.LINE)
        if os.environ.get("VERIF_REACH_ALL") == "1":
            # diagnostic mode (selftest/reach_gaps.py): every function and method defined in dreye.api.*
            import inspect
            for modname, mod in list(sys.modules.items()):
                if not modname.startswith("dreye.api") or mod is None:
                    continue
                objs = []
                for nm, ob in vars(mod).items():
                    if inspect.isfunction(ob) and ob.__module__ == modname:
                        objs.append((nm, ob))
                    elif inspect.isclass(ob) and ob.__module__ == modname:
                        for n2, o2 in vars(ob).items():
                            o2 = o2.fget if isinstance(o2, property) else getattr(o2, "__func__", o2)
                            if inspect.isfunction(o2):
                                objs.append((nm + "." + n2, o2))
                for qual, ob in objs:
                    code = ob.__code__
                    if code in self.codes:
                        continue
                    label = f"{modname.split('.')[-1]}.{qual}"
                    self.codes[code] = label
                    self.calls.setdefault(label, 0)
                    self.lines.setdefault(label, set())
                    self.all_lines[label] = {ln for (_, _, ln) in code.co_lines() if ln is not None and ln > code.co_firstlineno}
                    mon.set_local_events(self.tool, code, E.PY_START | E.LINE)

    def _on_start(self, code, offset):
        lab = self.codes.get(code)
        if lab is not None:
            self.calls[lab] += 1

    def _on_line(self, code, lineno):
        lab = self.codes.get(code)
        if lab is not None:
            self.lines[lab].add(lineno)
        return self.mon.DISABLE

    def report(self):
        out = {}
        for lab in self.calls:
            tot = self.all_lines.get(lab, set())
            hit = self.lines.get(lab, set()) & tot if tot else self.lines.get(lab, set())
            out[lab] = {"calls": self.calls[lab], "lines_hit": sorted(hit),
                        "lines_total": len(tot), "lines_all": sorted(tot)}
        return out

    def stop(self):
        if self.mon is not None and self.tool is not None:
            try:
                self.mon.free_tool_id(self.tool)
            except Exception:
                pass
