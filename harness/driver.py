"""Driver: shards a monitor's workload over subprocesses, merges what the monitors observed,
decides the three-valued verdict, writes evidence and replay files."""
from __future__ import annotations

import argparse
import json
import math
import os
import subprocess
import sys
import tempfile
import time

from harness import runtime
from harness.core import from_jsonable, strict_json
from harness import findings as findings_mod

VERIF_ROOT = runtime.VERIF_ROOT
PY = sys.executable


def _spawn(pid, tier, seed, shard, nshards, out):
    env = dict(os.environ)
    env["PYTHONPATH"] = VERIF_ROOT + os.pathsep + env.get("PYTHONPATH", "")
    env.setdefault("PYTHONHASHSEED", "0")
    env["PYTHONDONTWRITEBYTECODE"] = "1"
    for v in ("OMP_NUM_THREADS", "OPENBLAS_NUM_THREADS", "MKL_NUM_THREADS"):
        env.setdefault(v, "1")
    env.setdefault("MPLBACKEND", "Agg")
    log = open(out + ".log", "w")
    p = subprocess.Popen(
        [PY, "-W", "ignore::SyntaxWarning", "-m", "harness.shard", pid, tier, str(seed),
         str(shard), str(nshards), out],
        cwd=VERIF_ROOT, env=env, stdout=log, stderr=subprocess.STDOUT)
    return p, log


def run_shards(M, tier, seed):
    ncases, soft = M.budget[tier]
    ncpu = min(16, os.cpu_count() or 1)
    nshards = max(1, min(M.max_shards, ncpu, math.ceil(ncases / 4)))
    hard = M.hard_timeout[tier]
    tmpdir = tempfile.mkdtemp(prefix=f"verif_{M.pid}_")
    procs = []
    for s in range(nshards):
        out = os.path.join(tmpdir, f"shard{s}.json")
        p, log = _spawn(M.pid, tier, seed, s, nshards, out)
        procs.append((s, p, log, out))
    t_end = time.time() + hard
    results, dead = [], []
    for s, p, log, out in procs:
        try:
            p.wait(timeout=max(1.0, t_end - time.time()))
        except subprocess.TimeoutExpired:
            p.kill()
            p.wait()
        log.close()
        res = None
        if os.path.exists(out):
            try:
                with open(out) as f:
                    res = json.load(f)
            except Exception:
                res = None
        tail = ""
        try:
            with open(out + ".log") as f:
                tail = f.read()[-3000:]
        except Exception:
            pass
        if res is None or not res.get("done"):
            dead.append({"shard": s, "returncode": p.returncode, "log_tail": tail,
                         "partial": res is not None})
        if res is not None:
            results.append(res)
    # clean scratch
    for f in os.listdir(tmpdir):
        try:
            os.remove(os.path.join(tmpdir, f))
        except OSError:
            pass
    try:
        os.rmdir(tmpdir)
    except OSError:
        pass
    return results, dead, nshards


def merge(M, results):
    mg = {"clauses": {}, "violations": [], "samples": [], "cells": {}, "margins": {},
          "hashes": set(), "warnings": {}, "harness_errors": [], "not_run": 0, "reach": {},
          "events": {}, "checks": 0, "enum_run": {}}
    for r in results:
        for name, cs in r["clauses"].items():
            tgt = mg["clauses"].setdefault(name, {})
            for k, v in cs.items():
                if isinstance(v, dict):
                    d = tgt.setdefault(k, {})
                    for kk, vv in v.items():
                        d[kk] = d.get(kk, 0) + vv
                else:
                    tgt[k] = tgt.get(k, 0) + v
        mg["violations"].extend(r["violations"])
        mg["samples"].extend(r["samples"])
        for k, v in r["cells"].items():
            mg["cells"][k] = mg["cells"].get(k, 0) + v
        for k, v in r["margins"].items():
            mg["margins"][k] = max(mg["margins"].get(k, 0.0), v)
        mg["hashes"].update(r["hashes"])
        for k, v in r["warnings"].items():
            mg["warnings"][k] = mg["warnings"].get(k, 0) + v
        mg["harness_errors"].extend(r["harness_errors"])
        mg["not_run"] += r["not_run"]
        mg["checks"] += r["checks"]
        for k, v in r.get("events", {}).items():
            mg["events"][k] = mg["events"].get(k, 0) + v
        for k, v in r.get("enum_run", {}).items():
            mg["enum_run"][k] = mg["enum_run"].get(k, 0) + v
        for lab, rr in r.get("reach", {}).items():
            t = mg["reach"].setdefault(lab, {"calls": 0, "lines_hit": set(), "lines_total": rr["lines_total"],
                                             "lines_all": set(rr.get("lines_all", []))})
            t["calls"] += rr["calls"]
            t["lines_hit"].update(rr["lines_hit"])
    return mg


def decide_and_report(M, tier, seed, results, dead, nshards, wall_s):
    mg = merge(M, results)
    pid = M.pid
    kf = findings_mod.load()
    lines = []
    # ---- violations
    real, known = [], {}
    for v in mg["violations"]:
        unknown = [m for m in v["mechanisms"] if not findings_mod.is_open(kf, pid, m)]
        if unknown:
            real.append((v, unknown))
        else:
            for m in v["mechanisms"]:
                known.setdefault(m, []).append(v)
    # per-clause mechanism counts also cover violations whose payload was capped
    mech_counts = {}
    for name, cs in mg["clauses"].items():
        for m, n in cs.get("mechanisms", {}).items():
            mech_counts[m] = mech_counts.get(m, 0) + n
    for m in sorted(mech_counts):
        if findings_mod.is_open(kf, pid, m):
            e = findings_mod.entry(kf, pid, m)
            lines.append(f"KNOWN-FINDING: property={pid} {e['what']} [key={m}; seen {mech_counts[m]}x this run]")
    replay_paths = []
    seen_mech = set()
    rbase = os.environ.get("VERIF_EVIDENCE_DIR")
    rdir = os.path.join(rbase, "replays", pid) if rbase else os.path.join(VERIF_ROOT, "replays", pid)
    os.makedirs(rdir, exist_ok=True)
    for fn in os.listdir(rdir):      # replays belong to one run
        try:
            os.remove(os.path.join(rdir, fn))
        except OSError:
            pass
    for v, unknown in real:
        key = tuple(unknown)
        if key in seen_mech and len(replay_paths) >= 5:
            continue
        seen_mech.add(key)
        import hashlib
        h = hashlib.sha1(json.dumps(v["inputs"], sort_keys=True, default=str).encode()).hexdigest()[:12]
        rel = os.path.join("replays", pid, f"{v['clause']}-{h}.json")
        if rbase:
            rel = os.path.join(rdir, f"{v['clause']}-{h}.json")
        with open(os.path.join(VERIF_ROOT, rel), "w") as f:
            json.dump({"property": pid, "clause": v["clause"], "case": v["k"], "i": v["i"],
                       "seed": v["seed"], "tier": v["tier"], "violations": v["violations"],
                       "notes": v["notes"], "inputs": v["inputs"]}, f, indent=1)
        replay_paths.append(rel)
        what = "; ".join(x["what"] for x in v["violations"] if x["mechanism"] in unknown)[:300]
        lines.append(f"VIOLATION property={pid} replay={rel}")
        lines.append(f"  clause={v['clause']} case={v['k']} :: {what}")
        if len(replay_paths) >= 12:
            break
    n_real = sum(n for m, n in mech_counts.items() if not findings_mod.is_open(kf, pid, m))
    n_real = min(n_real, sum(cs.get("violated", 0) for cs in mg["clauses"].values())) if n_real else 0

    # ---- conclusiveness
    incon = []
    ncases, _ = M.budget[tier]
    if dead:
        lost = sum(1 for _ in dead)
        incon.append(f"{lost}/{nshards} shard(s) died or timed out")
    if mg["harness_errors"]:
        incon.append(f"{len(mg['harness_errors'])} harness error(s) (monitor/oracle code raised)")
    evaluated = 0
    n_inconcl = 0
    for name, cl in M.clauses.items():
        if tier not in cl.tiers:
            continue
        cs = mg["clauses"].get(name, {})
        evaluated += cs.get("evaluated", 0)
        n_inconcl += cs.get("inconclusive", 0)
        if cs.get("held", 0) + cs.get("violated", 0) < cl.min_held:
            incon.append(f"clause {name}: only {cs.get('held', 0)} decided evaluations (< {cl.min_held})")
        ev = cs.get("evaluated", 0)
        if ev and cs.get("inconclusive", 0) > max(3, 0.25 * ev):
            incon.append(f"clause {name}: {cs.get('inconclusive', 0)}/{ev} cases inconclusive")
    for q in M.deciding:
        if mg["reach"].get(q, {}).get("calls", 0) == 0:
            incon.append(f"deciding function {q} never entered")
    for cell in M.required_cells.get(tier, M.required_cells.get("all", [])):
        if mg["cells"].get(cell, 0) == 0:
            incon.append(f"required cell '{cell}' never observed")
    for kind in M.required_events:
        if runtime_hooks_expected() and mg["events"].get(kind, 0) == 0:
            incon.append(f"required hook event '{kind}' never observed")
    exhaustive = {}
    for name, cl in M.clauses.items():
        if cl.enumerated is not None and tier in cl.tiers:
            N = cl.enumerated(tier)
            exhaustive[name] = {"enumerated": N, "run": mg["enum_run"].get(name, 0),
                                "complete": mg["enum_run"].get(name, 0) == N}

    # ---- evidence
    reach = {lab: {"calls": r["calls"], "lines_hit": len(r["lines_hit"]), "lines_total": r["lines_total"],
                   "lines_not_executed": sorted(r.get("lines_all", set()) - r["lines_hit"])}
             for lab, r in sorted(mg["reach"].items())}
    samples = mg["samples"][:0]
    per = {}
    for s in mg["samples"]:
        if per.get(s["clause"], 0) < 2:
            per[s["clause"]] = per.get(s["clause"], 0) + 1
            samples.append(s)
    if not samples:
        samples = [{"note": "no non-trivial held case to show", "clauses": sorted(mg["clauses"])}]
    status = "violated" if n_real else ("inconclusive" if incon else "held")
    evidence = {
        "property_id": pid, "tier": tier, "seed": int(seed), "level": M.level,
        "coverage": {
            "evaluations": int(evaluated),
            "distinct_nontrivial": int(len(mg["hashes"])),
            "rule": M.rule,
            "samples": samples[:12],
            "exhaustive": bool(M.exhaustive_claim) and bool(exhaustive) and all(e["complete"] for e in exhaustive.values()) and not incon,
            "exhaustive_scope": M.exhaustive_claim or "none: sampled workload (finite enumerations listed under 'enumerations' are auxiliary)",
            "enumerations": exhaustive,
            "postconditions_evaluated": mg["checks"],
            "per_clause": {n: {k: v for k, v in cs.items()} for n, cs in sorted(mg["clauses"].items())},
            "cells_observed": dict(sorted(mg["cells"].items())),
            "worst_deviation_over_tolerance": {k: round(v, 6) for k, v in sorted(mg["margins"].items())},
            "anchored_function_reach": reach,
            "hook_events": mg["events"],
            "warnings_seen": dict(sorted(mg["warnings"].items(), key=lambda kv: -kv[1])[:15]),
            "cases_not_run_soft_deadline": mg["not_run"],
            "inconclusive_cases": n_inconcl,
            "known_finding_hits": {m: n for m, n in mech_counts.items() if findings_mod.is_open(kf, pid, m)},
            "verdict": status,
            "inconclusive_reasons": incon,
            "shards": nshards,
        },
        "assumptions": M.assumptions,
        "wall_s": round(wall_s, 2),
        "violations": int(n_real),
    }
    evdir = os.environ.get("VERIF_EVIDENCE_DIR") or os.path.join(VERIF_ROOT, "evidence")
    os.makedirs(evdir, exist_ok=True)
    with open(os.path.join(evdir, f"{pid}.json"), "w") as f:
        json.dump(strict_json(evidence), f, indent=1)

    # ---- print
    print(f"[{pid}] tier={tier} seed={seed} shards={nshards} evaluated={evaluated} "
          f"distinct_nontrivial={len(mg['hashes'])} postconditions={mg['checks']} "
          f"inconclusive_cases={n_inconcl} not_run={mg['not_run']} wall={wall_s:.1f}s")
    for name, cs in sorted(mg["clauses"].items()):
        print(f"    {name}: " + " ".join(f"{k}={v}" for k, v in cs.items() if not isinstance(v, dict)))
    worst = sorted(mg["margins"].items(), key=lambda kv: -kv[1])[:5]
    if worst:
        print("    worst deviation/tolerance: " + ", ".join(f"{k}={v:.3g}" for k, v in worst))
    for ln in lines:
        print(ln)
    for he in mg["harness_errors"][:3]:
        print("HARNESS-ERROR", he["clause"], he["where"], "\n", he["tb"])
    for d in dead[:3]:
        print("DEAD-SHARD", d["shard"], d["returncode"], "\n", d["log_tail"][-1500:])
    if n_real:
        print(f"[{pid}] VIOLATED ({n_real} violating case(s))")
        return 1
    if incon:
        for w in incon:
            print(f"INCONCLUSIVE property={pid} {w}")
        return 2
    print(f"[{pid}] HELD on everything observed")
    return 0


def runtime_hooks_expected():
    return True


def replay(M, path):
    from harness.shard import run_case
    runtime.load_dreye()
    if M.setup:
        M.setup()
    with open(path) as f:
        rec = json.load(f)
    clause = M.clauses[rec["clause"]]
    inputs = from_jsonable(rec["inputs"])
    c = run_case(M, clause, inputs)
    print(f"[{M.pid}] replay clause={rec['clause']} status={c.status}")
    if c.harness_error:
        print("HARNESS-ERROR\n", c.harness_error)
        return 2
    for v in c.violations:
        print(f"  violated: {v.what} [mechanism={v.mechanism}]")
        print("    " + json.dumps(v.detail)[:1500])
    kf = findings_mod.load()
    if c.violations:
        unknown = [v for v in c.violations if not findings_mod.is_open(kf, M.pid, v.mechanism)]
        if unknown:
            print(f"VIOLATION property={M.pid} replay={path}")
            return 1
        for v in c.violations:
            print(f"KNOWN-FINDING: property={M.pid} {findings_mod.entry(kf, M.pid, v.mechanism)['what']}")
        return 0
    return 0 if c.status in ("held", "unmet") else 2


def run_one(M, tier, seed, k):
    from harness.shard import run_case
    from harness.core import brief
    runtime.load_dreye()
    if M.setup:
        M.setup()
    name, i = M.case_plan(tier, k)
    clause = M.clauses[name]
    inputs = clause.gen(M.rng(seed, k), i)
    c = run_case(M, clause, inputs)
    print(f"[{M.pid}] case {k} clause={name} i={i} status={c.status} nontrivial={c.is_nontrivial}")
    print("  cells:", sorted(c.cells))
    print("  inputs:", json.dumps(brief(inputs))[:1500])
    print("  notes:", json.dumps(strict_json(c.notes))[:1500])
    if c.harness_error:
        print("HARNESS-ERROR\n", c.harness_error)
    for v in c.violations:
        print(f"  violated: {v.what} [mechanism={v.mechanism}]")
        print("    " + json.dumps(v.detail)[:1200])
    for w in c.inconclusive_why + c.unmet_why:
        print("  why:", w)
    return 0


def main(argv=None):
    ap = argparse.ArgumentParser()
    ap.add_argument("pid")
    ap.add_argument("--tier", default=os.environ.get("VERIF_TIER", "quick"), choices=["quick", "thorough"])
    ap.add_argument("--replay")
    ap.add_argument("--seed", type=int, default=None)
    ap.add_argument("--case", type=int, default=None, help="run one generated case in-process (debugging)")
    a = ap.parse_args(argv)
    seed = a.seed if a.seed is not None else int(os.environ.get("VERIF_SEED", "0") or 0)
    sys.path.insert(0, VERIF_ROOT)
    from harness.shard import load_monitor
    pid = a.pid.upper()
    if a.replay:
        M = load_monitor(pid)
        return replay(M, a.replay)
    if a.case is not None:
        return run_one(load_monitor(pid), a.tier, seed, a.case)
    # the monitor module is imported here only for its declarative parts (budget, clauses);
    # dreye itself is imported in the shards
    M = load_monitor(pid)
    t0 = time.time()
    results, dead, nshards = run_shards(M, a.tier, seed)
    return decide_and_report(M, a.tier, seed, results, dead, nshards, time.time() - t0)


if __name__ == "__main__":
    sys.exit(main())
