"""Runs one shard of a monitor's case budget in its own process.

usage: python -m harness.shard PID TIER SEED SHARD NSHARDS OUTFILE
"""
from __future__ import annotations

import faulthandler
import importlib
import json
import os
import sys
import time
import traceback
import warnings

import numpy as np

from harness import runtime
from harness.core import (CaseAbort, CaseCtx, UnderTestRaised, brief, case_hash, strict_json,
                          to_jsonable)


def load_monitor(pid):
    mod = importlib.import_module(f"monitors.{pid.lower()}")
    return mod.M


def run_case(M, clause, inputs):
    """Run one clause check on materialised inputs; returns the CaseCtx."""
    runtime.EVENTS.clear()
    c = CaseCtx(clause.name, events=runtime.EVENTS)
    c.decoy = bool(getattr(M, "decoy", False))
    harness_error = None
    with warnings.catch_warnings(record=True) as wlist:
        warnings.simplefilter("always")
        try:
            with np.errstate(all="ignore"):
                clause.check(inputs, c)
        except CaseAbort:
            pass
        except UnderTestRaised as e:
            # a monitor let an allowed exception escape without handling it: harness bug
            harness_error = f"unhandled UnderTestRaised {e}"
        except Exception:  # noqa  -- bug in monitor/oracle code, never a verdict
            harness_error = traceback.format_exc(limit=8)
    c.warnings = {}
    for w in wlist:
        key = f"{w.category.__name__}:{str(w.message)[:60]}"
        c.warnings[key] = c.warnings.get(key, 0) + 1
    c.harness_error = harness_error
    return c


def main(argv):
    pid, tier, seed, shard, nshards, out = argv[0], argv[1], int(argv[2]), int(argv[3]), int(argv[4]), argv[5]
    faulthandler.enable()
    t0 = time.time()
    runtime.load_dreye()
    M = load_monitor(pid)
    if M.setup:
        M.setup()
    reach = runtime.Reach()
    reach.start(M.anchors)
    ncases, soft = M.budget[tier]
    soft = float(os.environ.get("VERIF_SOFT_SECONDS", soft))
    deadline = time.time() + soft

    agg = {
        "pid": pid, "tier": tier, "seed": seed, "shard": shard, "nshards": nshards,
        "done": False, "clauses": {}, "violations": [], "samples": [], "cells": {},
        "margins": {}, "hashes": [], "warnings": {}, "harness_errors": [], "not_run": 0,
        "events": {}, "checks": 0, "skipped_enum": 0, "enum_run": {}, "import_s": time.time() - t0,
    }
    hashes = set()

    def flush(done=False):
        agg["done"] = done
        agg["hashes"] = sorted(hashes)
        agg["reach"] = reach.report()
        agg["events"] = dict(runtime.EVENT_COUNTS)
        agg["wall_s"] = time.time() - t0
        tmp = out + ".tmp"
        with open(tmp, "w") as f:
            json.dump(agg, f)
        os.replace(tmp, out)

    last_flush = time.time()
    sample_per_clause = {}
    L = len(M.schedule(tier))
    for k in range(ncases):
        # rotate the shard assignment by one per schedule round so that every shard sees every clause
        if (k + k // L) % nshards != shard:
            continue
        name, i = M.case_plan(tier, k)
        clause = M.clauses[name]
        if clause.enumerated is not None:
            N = clause.enumerated(tier)
            if i >= N:
                agg["skipped_enum"] += 1
                continue
        if time.time() > deadline:
            agg["not_run"] += 1
            cs = agg["clauses"].setdefault(name, {})
            cs["not_run"] = cs.get("not_run", 0) + 1
            continue
        rng = M.rng(seed, k)
        try:
            inputs = clause.gen(rng, i)
        except Exception:  # noqa
            agg["harness_errors"].append({"clause": name, "k": k, "where": "gen",
                                          "tb": traceback.format_exc(limit=6)})
            continue
        c = run_case(M, clause, inputs)
        cs = agg["clauses"].setdefault(name, {})
        if c.harness_error:
            cs["harness_error"] = cs.get("harness_error", 0) + 1
            if len(agg["harness_errors"]) < 10:
                agg["harness_errors"].append({"clause": name, "k": k, "where": "check",
                                              "tb": c.harness_error})
            continue
        st = c.status
        cs[st] = cs.get(st, 0) + 1
        cs["evaluated"] = cs.get("evaluated", 0) + 1
        if clause.enumerated is not None:
            agg["enum_run"][name] = agg["enum_run"].get(name, 0) + 1
        agg["checks"] += c.checks
        for cell in c.cells:
            agg["cells"][cell] = agg["cells"].get(cell, 0) + 1
        for mk, mv in c.margins.items():
            key = f"{name}:{mk}"
            if mv > agg["margins"].get(key, 0.0):
                agg["margins"][key] = mv
        for wk, wv in c.warnings.items():
            agg["warnings"][wk] = agg["warnings"].get(wk, 0) + wv
        if st in ("held", "violated") and c.is_nontrivial:
            hashes.add(c.distinct_key or case_hash(inputs))
            cs["nontrivial"] = cs.get("nontrivial", 0) + 1
        if st == "inconclusive":
            lst = cs.setdefault("inconclusive_why", {})
            for w in c.inconclusive_why:
                w = w[:80]
                lst[w] = lst.get(w, 0) + 1
        if st == "unmet":
            lst = cs.setdefault("unmet_why", {})
            for w in c.unmet_why:
                w = w[:80]
                lst[w] = lst.get(w, 0) + 1
        if st == "violated":
            # keep every distinct mechanism, cap the total payload
            mechs = {v.mechanism for v in c.violations}
            seen = {m for v in agg["violations"] for m in v["mechanisms"]}
            if len(agg["violations"]) < 40 or not mechs <= seen:
                agg["violations"].append({
                    "clause": name, "k": k, "i": i, "seed": seed, "tier": tier,
                    "mechanisms": sorted(mechs),
                    "violations": [{"what": v.what, "mechanism": v.mechanism, "detail": v.detail}
                                   for v in c.violations],
                    "inputs": to_jsonable(inputs),
                    "notes": strict_json(c.notes),
                })
            mc = cs.setdefault("mechanisms", {})
            for m in mechs:
                mc[m] = mc.get(m, 0) + 1
        elif st == "held" and c.is_nontrivial and sample_per_clause.get(name, 0) < 2:
            sample_per_clause[name] = sample_per_clause.get(name, 0) + 1
            agg["samples"].append({"clause": name, "case": k, "inputs": brief(inputs),
                                   "observed": strict_json(c.notes),
                                   "cells": sorted(c.cells), "postconditions_evaluated": c.checks})
        if time.time() - last_flush > 15:
            flush(False)
            last_flush = time.time()
    reach.stop()
    flush(True)


if __name__ == "__main__":
    sys.path.insert(0, runtime.VERIF_ROOT)
    main(sys.argv[1:])
