"""pytest plugin: arms the in-situ contracts of harness/observe.py while the repository's own tests run.
usage (cwd = repository root): python -m pytest -p harness.pytest_contracts tests   with PYTHONPATH=/verif and
VERIF_CONTRACTS_OUT=<json path>."""
import json
import os
import sys


def pytest_configure(config):
    root = os.path.abspath(os.environ.get("VERIF_REPO_ROOT", os.getcwd()))
    if sys.path[0] != root:
        sys.path.insert(0, root)
    import dreye  # noqa
    assert os.path.abspath(dreye.__file__).startswith(root + os.sep), dreye.__file__
    from harness import observe
    config._verif_rebinds = observe.install_all()


def pytest_sessionfinish(session, exitstatus):
    from harness import observe
    out = os.environ.get("VERIF_CONTRACTS_OUT")
    if out:
        rec = dict(observe.RECORDS)
        rec["rebinds"] = getattr(session.config, "_verif_rebinds", {})
        rec["pytest_exitstatus"] = int(exitstatus)
        with open(out, "w") as f:
            json.dump(rec, f)
