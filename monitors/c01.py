"""C01 — capture is the pairwise trapezoid integral of filter x signal, and linear.

Events: every return value of calculate_capture / integral / ReceptorEstimator.capture made by
the workload.  Oracle: explicit trapezoid-weight einsum (harness.oracles), bit-level twin runs
for pairwise independence, algebraic twin runs for superposition and for dx vs explicit domain.
"""
import numpy as np

from harness import runtime, oracles
from harness.core import Monitor

REL = 1e-12
dreye = None


def _setup():
    global dreye
    dreye = runtime.load_dreye()


M = Monitor(
    pid="C01",
    setup=_setup,
    title="Capture is the trapezoid integral of filter x signal, pairwise and linear",
    rule=("cases: random filter/signal arrays of every broadcastable shape class (1-D, 2-D, leading batch axes "
          "incl. size-1), domains {scalar step, uniform, log-spaced, two-scale, dyadic integer-exact}, trapz on/off, "
          "n_domain 2..400. non-trivial = n_domain>=3 and (>=2 filters and >=2 signals, or a batch axis, or a "
          "non-uniform domain). distinct = hash of rounded inputs"),
    budget={"quick": (12000, 60), "thorough": (600000, 900)},
    anchors=[("dreye.api.capture", "calculate_capture"), ("dreye.api.utils", "integral"),
             ("dreye.api.estimator", "ReceptorEstimator.capture"),
             ("dreye.api.estimator", "ReceptorEstimator._check_domain")],
    deciding=["capture.calculate_capture", "utils.integral", "estimator.ReceptorEstimator.capture"],
    required_cells={"all": ["shape=1Dx1D", "shape=2Dx1D", "shape=1Dx2D", "shape=2Dx2D", "shape=batch",
                            "domain=scalar", "domain=uniform", "domain=nonuniform", "domain=dyadic",
                            "trapz=False", "trapz=True", "domain-units=small", "domain-units=large"]},
    assumptions=["float64 summation-order differences bounded by 1e-12 * sum |w s f|",
                 "inputs finite; domains strictly ascending"],
)


# ------------------------------------------------------------------ generators

def gen_domain(rng, n):
    kind = ["scalar", "uniform", "log", "twoscale", "dyadic"][rng.integers(5)]
    if kind == "scalar":
        dx = float([1.0, 0.5, 2.0, 10.0][rng.integers(4)]) if rng.integers(2) else float(rng.uniform(0.01, 20))
        return kind, dx
    if kind == "uniform":
        lo = rng.uniform(-100, 700)
        return kind, lo + rng.uniform(0.05, 10) * np.arange(n)
    if kind == "log":
        return kind, np.sort(10 ** rng.uniform(0, 3, n)) + np.arange(n) * 1e-6
    if kind == "twoscale":
        d = np.where(rng.random(n - 1) < 0.5, rng.uniform(0.001, 0.01), rng.uniform(5, 50))
        return kind, np.concatenate([[rng.uniform(0, 300)], rng.uniform(0, 300) + np.cumsum(d)])[:n] if n > 1 else np.array([1.0])
    # dyadic: steps that are multiples of 1/8, integer data => exact float arithmetic
    d = rng.integers(1, 40, n - 1) / 8.0
    return kind, np.concatenate([[float(rng.integers(0, 300))], float(rng.integers(0, 300)) + np.cumsum(d)])


UNIT_SCALES = [1e-9, 1e-6, 1e-3, 1.0, 1.0, 1.0, 1e3, 1e6]     # e.g. wavelengths in m, um, mm, nm ...


def _rescale(rng, inp):
    """Express the domain in other units (and the values in other magnitudes); powers of ten keep dyadic cases
    inexact, so exactness is only asserted for the unscaled ones."""
    u = float(UNIT_SCALES[rng.integers(len(UNIT_SCALES))])
    v = float([1.0, 1.0, 1e-9, 1e9][rng.integers(4)])
    if u != 1.0:
        inp["domain"] = inp["domain"] * u
        inp["exact"] = False
    if v != 1.0:
        inp["filters"] = inp["filters"] * v
        inp["exact"] = False
    inp["unit_scale"] = u
    return inp


def _fix_domain(kind, dom, n):
    if kind == "twoscale" and np.ndim(dom) == 1:
        dom = np.asarray(dom, dtype=float)
        if dom.size != n or np.any(np.diff(dom) <= 0):
            dom = np.cumsum(np.abs(np.concatenate([[1.0], np.diff(dom)])) + 1e-3)[:n]
    return dom


def gen_shapes(rng):
    """Returns (class, filter shape, signal shape) without the domain axis."""
    cls = ["1Dx1D", "2Dx1D", "1Dx2D", "2Dx2D", "batch"][rng.integers(5)]
    nf, ns = int(rng.integers(1, 6)), int(rng.integers(1, 7))
    if cls == "1Dx1D":
        return cls, (), ()
    if cls == "2Dx1D":
        return cls, (nf,), ()
    if cls == "1Dx2D":
        return cls, (), (ns,)
    if cls == "2Dx2D":
        return cls, (nf,), (ns,)
    nb = int(rng.integers(1, 3))
    lead = [int(rng.integers(1, 4)) for _ in range(nb)]
    lf, ls = list(lead), list(lead)
    mode = rng.integers(4)
    if mode == 0:       # batch only on filters
        ls = []
    elif mode == 1:     # batch only on signals
        lf = []
    elif mode == 2:     # size-1 axes mixed in
        j = int(rng.integers(nb))
        (lf if rng.integers(2) else ls)[j] = 1
    return cls, tuple(lf) + (nf,), tuple(ls) + (ns,)


def gen_values(rng, shape, exact):
    if exact:
        return rng.integers(-8, 9, shape).astype(float)
    k = rng.integers(3)
    if k == 0:
        return rng.uniform(0, 1, shape)
    if k == 1:
        return rng.normal(0, 1, shape) * 10 ** rng.uniform(-3, 3)
    return np.abs(rng.normal(0, 1, shape)) * (rng.random(shape) < 0.7)


def gen_oracle(rng, i):
    if i % 700 == 333:
        # a large call (> 4M products: internal chunking / fast paths) on an integer wavelength grid, even or uneven
        n = int(rng.integers(380, 420))
        dom = 300.0 + (np.arange(n) if rng.integers(2) else np.concatenate([[0], np.cumsum(rng.integers(1, 4, n - 1))]))
        nsig = int(rng.integers(2800, 3300))
        return {"filters": gen_values(rng, (4, n), False), "signals": gen_values(rng, (nsig, n), False), "domain": dom,
                "dkind": "uniform", "cls": "large", "trapz": True, "exact": False, "domain_as_list": False}
    n = int([2, 3, 5, 17, 64, 400][rng.integers(6)]) if rng.integers(3) == 0 else int(rng.integers(2, 60))
    kind, dom = gen_domain(rng, n)
    dom = _fix_domain(kind, dom, n)
    cls, fs, ss = gen_shapes(rng)
    exact = kind == "dyadic" or (kind == "scalar" and dom in (0.5, 1.0, 2.0) and rng.integers(2) == 0)
    trapz = bool(rng.integers(4) != 0)
    return _rescale(rng, {"filters": gen_values(rng, fs + (n,), exact), "signals": gen_values(rng, ss + (n,), exact),
                          "domain": dom, "dkind": kind, "cls": cls, "trapz": trapz, "exact": bool(exact),
                          "domain_as_list": bool(rng.integers(4) == 0)})


def _cells(c, inp):
    c.cell("shape=" + inp["cls"], "trapz=" + str(inp["trapz"]))
    if inp.get("unit_scale", 1.0) != 1.0:
        c.cell("domain-units=" + ("small" if inp["unit_scale"] < 1 else "large"))
    k = inp["dkind"]
    c.cell("domain=" + ("scalar" if k == "scalar" else "uniform" if k == "uniform" else
                        "dyadic" if k == "dyadic" else "nonuniform"))


def _nontrivial(inp):
    f, s = inp["filters"], inp["signals"]
    n = f.shape[-1]
    multi = (f.ndim >= 2 and s.ndim >= 2 and f.shape[-2] >= 2 and s.shape[-2] >= 2)
    batch = f.ndim >= 3 or s.ndim >= 3
    nonuni = inp["dkind"] in ("log", "twoscale", "dyadic")
    return n >= 3 and (multi or batch or nonuni)


def expected_shape(f, s):
    if f.ndim > 1 and s.ndim > 1:
        lead = np.broadcast_shapes(f.shape[:-2], s.shape[:-2])
        return tuple(lead) + (s.shape[-2], f.shape[-2])
    return np.broadcast_shapes(f.shape, s.shape)[:-1]


# ------------------------------------------------------------------ clause: value vs oracle

def chk_oracle(inp, c):
    c.decoy = True          # every judged call is preceded by a call with same-shape, same-end-point inputs
    f, s, dom, trapz = inp["filters"], inp["signals"], inp["domain"], inp["trapz"]
    _cells(c, inp)
    n = f.shape[-1]
    dom_arg = dom if np.ndim(dom) == 0 else (list(map(float, dom)) if inp["domain_as_list"] else dom.copy())
    if np.ndim(dom) == 0:
        dom_arg = float(dom)
    got = c.call(dreye.calculate_capture, f.copy(), s.copy(), domain=dom_arg, trapz=trapz,
                 _where="calculate_capture")
    got = np.asarray(got)
    w = oracles.domain_weights(dom, n, trapz=trapz if np.ndim(dom) == 0 else True)
    want, mag = oracles.capture_oracle(f, s, w)
    c.require(got.shape == expected_shape(f, s), "result shape is (..., n_signals, n_filters)",
              mechanism="shape", got=list(got.shape), want=list(expected_shape(f, s)))
    if got.shape != want.shape:
        return
    c.require(np.all(np.isfinite(got)), "finite inputs give finite capture", mechanism="nonfinite")
    dev = np.abs(got - want)
    tol = REL * mag + 1e-300
    c.margin("capture vs trapezoid oracle", float(np.max(dev / tol)) if dev.size else 0.0, 1.0)
    c.require(np.all(dev <= tol), "capture[..., i, j] equals the trapezoid integral of signal i x filter j",
              mechanism="value", max_dev=float(np.max(dev)), max_rel=float(np.max(dev / (mag + 1e-300))),
              got=got.ravel()[:6], want=want.ravel()[:6])
    if inp["exact"]:
        c.cell("exact-arithmetic")
        c.require(np.array_equal(got, want), "integer data on a dyadic grid: exactly equal (no rounding)",
                  mechanism="value-exact", max_dev=float(np.max(dev)))
    c.nontrivial(_nontrivial(inp))
    c.note("shape", {"filters": list(f.shape), "signals": list(s.shape), "capture": list(got.shape)})
    c.note("first_entries", {"got": got.ravel()[:3], "oracle": want.ravel()[:3]})


M.add("capture_vs_oracle", gen_oracle, chk_oracle, weight=5, min_held=200)


# ------------------------------------------------------------------ clause: pairwise independence

def gen_indep(rng, i):
    inp = gen_oracle(rng, i)
    n = inp["filters"].shape[-1]
    nf, ns = int(rng.integers(2, 6)), int(rng.integers(2, 6))
    lead = tuple(int(rng.integers(1, 3)) for _ in range(int(rng.integers(0, 2))))
    inp["filters"] = gen_values(rng, lead + (nf, n), False)
    inp["signals"] = gen_values(rng, lead + (ns, n), False)
    inp["cls"] = "batch" if lead else "2Dx2D"
    inp["exact"] = False
    inp["j"] = int(rng.integers(nf))
    inp["i"] = int(rng.integers(ns))
    inp["noise_f"] = rng.normal(0, 50, lead + (nf, n))
    inp["noise_s"] = rng.normal(0, 50, lead + (ns, n))
    return inp


def chk_indep(inp, c):
    c.relayout = False      # bit-level comparison of two runs: both must see the same memory layout
    f, s, dom, trapz = inp["filters"], inp["signals"], inp["domain"], inp["trapz"]
    _cells(c, inp)
    c.cell("independence")
    dom_arg = float(dom) if np.ndim(dom) == 0 else dom
    base = np.asarray(c.call(dreye.calculate_capture, f, s, domain=dom_arg, trapz=trapz))
    i, j = inp["i"], inp["j"]
    f2 = inp["noise_f"].copy()
    f2[..., j, :] = f[..., j, :]
    s2 = inp["noise_s"].copy()
    s2[..., i, :] = s[..., i, :]
    alt = np.asarray(c.call(dreye.calculate_capture, f2, s2, domain=dom_arg, trapz=trapz))
    c.require(base.shape == alt.shape and base.ndim >= 2, "shape stable", mechanism="shape")
    c.require(np.array_equal(base[..., i, j], alt[..., i, j]),
              "entry (i, j) depends on no other filter or signal (bit-identical after replacing all others)",
              mechanism="independence", i=i, j=j, base=base[..., i, j].ravel()[:4], alt=alt[..., i, j].ravel()[:4])
    # and it does depend on its own pair: the oracle value for the pair alone
    w = oracles.domain_weights(dom, f.shape[-1], trapz=trapz if np.ndim(dom) == 0 else True)
    want = np.sum(f[..., j, :] * s[..., i, :] * w, axis=-1)
    mag = np.sum(np.abs(f[..., j, :] * s[..., i, :]) * np.abs(w), axis=-1)
    c.require(np.all(np.abs(base[..., i, j] - want) <= REL * mag + 1e-300),
              "entry (i, j) is the integral of signal i x filter j", mechanism="value")
    c.nontrivial(f.shape[-1] >= 3)
    c.note("pair", [i, j])


M.add("pairwise_independence", gen_indep, chk_indep, weight=2, min_held=100)


# ------------------------------------------------------------------ clause: linearity + dx equivalence

def gen_lin(rng, i):
    inp = gen_oracle(rng, i)
    inp["exact"] = False
    inp["signals2"] = gen_values(rng, inp["signals"].shape, False)
    inp["filters2"] = gen_values(rng, inp["filters"].shape, False)
    inp["a"], inp["b"] = float(rng.normal()), float(rng.normal() * 3)
    return inp


def chk_lin(inp, c):
    c.decoy = True          # every judged call is preceded by a call with same-shape, same-end-point inputs
    f, s, f2, s2 = inp["filters"], inp["signals"], inp["filters2"], inp["signals2"]
    a, b, dom, trapz = inp["a"], inp["b"], inp["domain"], inp["trapz"]
    _cells(c, inp)
    c.cell("linearity")
    dom_arg = float(dom) if np.ndim(dom) == 0 else dom
    cap = lambda F, S: np.asarray(c.call(dreye.calculate_capture, F, S, domain=dom_arg, trapz=trapz))
    n = f.shape[-1]
    w = oracles.domain_weights(dom, n, trapz=trapz if np.ndim(dom) == 0 else True)
    _, m1 = oracles.capture_oracle(f, s, w)
    _, m2 = oracles.capture_oracle(f, s2, w)
    _, m3 = oracles.capture_oracle(f2, s, w)
    lhs = cap(f, a * s + b * s2)
    rhs = a * cap(f, s) + b * cap(f, s2)
    tol = 4 * REL * (abs(a) * m1 + abs(b) * m2) + 1e-300
    c.require(lhs.shape == rhs.shape and np.all(np.abs(lhs - rhs) <= tol),
              "superposition in the signals: cap(a s1 + b s2) = a cap(s1) + b cap(s2)", mechanism="linear-signals",
              max_dev=float(np.max(np.abs(lhs - rhs))) if lhs.shape == rhs.shape else None)
    lhs = cap(a * f + b * f2, s)
    rhs = a * cap(f, s) + b * cap(f2, s)
    tol = 4 * REL * (abs(a) * m1 + abs(b) * m3) + 1e-300
    c.require(lhs.shape == rhs.shape and np.all(np.abs(lhs - rhs) <= tol),
              "superposition in the filters (univariance)", mechanism="linear-filters",
              max_dev=float(np.max(np.abs(lhs - rhs))) if lhs.shape == rhs.shape else None)
    if np.ndim(dom) == 0:
        c.cell("dx-vs-explicit-domain")
        explicit = float(dom) * np.arange(n)
        g1 = cap(f, s) if trapz else np.asarray(c.call(dreye.calculate_capture, f, s, domain=float(dom), trapz=True))
        g2 = np.asarray(c.call(dreye.calculate_capture, f, s, domain=explicit))
        c.require(g1.shape == g2.shape and np.all(np.abs(g1 - g2) <= 4 * REL * m1 + 1e-300),
                  "scalar step dx gives the same result as the explicit domain 0, dx, 2dx, ...",
                  mechanism="dx-equivalence",
                  max_dev=float(np.max(np.abs(g1 - g2))) if g1.shape == g2.shape else None)
    c.nontrivial(_nontrivial(inp))
    c.note("a_b", [a, b])


M.add("linearity_dx", gen_lin, chk_lin, weight=2, min_held=100)


# ------------------------------------------------------------------ clause: integral helper

def gen_integral(rng, i):
    nd = int(rng.integers(1, 4))
    n = int(rng.integers(2, 50))
    shape = [int(rng.integers(1, 5)) for _ in range(nd)]
    ax = int(rng.integers(nd))
    shape[ax] = n
    kind, dom = gen_domain(rng, n)
    dom = _fix_domain(kind, dom, n)
    exact = kind == "dyadic"
    out = {"arr": gen_values(rng, tuple(shape), exact), "domain": dom, "dkind": kind,
           "axis": ax - nd if rng.integers(2) else ax, "keepdims": bool(rng.integers(2)), "exact": bool(exact),
           "default_axis": bool(ax == nd - 1 and rng.integers(2))}
    u = float(UNIT_SCALES[rng.integers(len(UNIT_SCALES))])
    if u != 1.0:
        out["domain"] = out["domain"] * u
        out["exact"] = False
    return out


def chk_integral(inp, c):
    c.decoy = True          # every judged call is preceded by a call with same-shape, same-end-point inputs
    arr, dom, axis, keep = inp["arr"], inp["domain"], inp["axis"], inp["keepdims"]
    k = inp["dkind"]
    c.cell("integral", "domain=" + ("scalar" if k == "scalar" else "uniform" if k == "uniform" else
                                    "dyadic" if k == "dyadic" else "nonuniform"))
    kw = {} if inp["default_axis"] else {"axis": axis}
    dom_arg = float(dom) if np.ndim(dom) == 0 else dom
    got = np.asarray(c.call(dreye.integral, arr.copy(), dom_arg, keepdims=keep, **kw))
    ax = axis % arr.ndim
    n = arr.shape[ax]
    w = oracles.domain_weights(dom, n, True)
    shp = [1] * arr.ndim
    shp[ax] = n
    want = np.sum(arr * w.reshape(shp), axis=ax, keepdims=keep)
    mag = np.sum(np.abs(arr) * np.abs(w).reshape(shp), axis=ax, keepdims=keep)
    c.require(got.shape == want.shape, "integral shape (keepdims honoured)", mechanism="integral-shape",
              got=list(got.shape), want=list(want.shape))
    if got.shape != want.shape:
        return
    dev = np.abs(got - want)
    c.margin("integral vs oracle", float(np.max(dev / (REL * mag + 1e-300))) if dev.size else 0.0, 1.0)
    c.require(np.all(dev <= REL * mag + 1e-300), "integral helper equals the trapezoid rule along the axis",
              mechanism="integral-value", max_dev=float(np.max(dev)) if dev.size else 0.0)
    if inp["exact"]:
        c.require(np.array_equal(got, want), "integral exact on dyadic grid", mechanism="integral-exact")
    c.nontrivial(n >= 3 and arr.ndim >= 2 or k in ("log", "twoscale", "dyadic"))
    c.note("axis_keepdims", [axis, keep])


M.add("integral_helper", gen_integral, chk_integral, weight=2, min_held=100)


# ------------------------------------------------------------------ clause: estimator.capture on own domain

def gen_est(rng, i):
    n = int(rng.integers(3, 80))
    kind, dom = gen_domain(rng, n)
    dom = _fix_domain(kind, dom, n)
    nf, ns = int(rng.integers(1, 6)), int(rng.integers(1, 7))
    sig1d = bool(rng.integers(5) == 0)
    u = float(UNIT_SCALES[rng.integers(len(UNIT_SCALES))])
    return {"filters": np.abs(gen_values(rng, (nf, n), False)),
            "signals": gen_values(rng, (n,) if sig1d else (ns, n), False),
            "domain": dom * u, "dkind": kind, "pass_domain": bool(rng.integers(2))}


def chk_est(inp, c):
    c.decoy = True          # every judged call is preceded by a call with same-shape, same-end-point inputs
    c.relayout = False      # bit-level comparison of two runs: both must see the same memory layout
    f, s, dom = inp["filters"], inp["signals"], inp["domain"]
    k = inp["dkind"]
    c.cell("estimator.capture", "domain=" + ("scalar" if k == "scalar" else "uniform" if k == "uniform" else
                                             "dyadic" if k == "dyadic" else "nonuniform"))
    dom_arg = float(dom) if np.ndim(dom) == 0 else dom
    est = c.call(dreye.ReceptorEstimator, f.copy(), domain=dom_arg, _where="ReceptorEstimator")
    kw = {"domain": dom_arg if np.ndim(dom) == 0 else dom.copy()} if inp["pass_domain"] else {}
    got = np.asarray(c.call(est.capture, s.copy(), **kw, _where="ReceptorEstimator.capture"))
    w = oracles.domain_weights(dom, f.shape[-1], True)
    want, mag = oracles.capture_oracle(f, s, w)
    c.require(got.shape == want.shape, "estimator capture shape", mechanism="est-shape",
              got=list(got.shape), want=list(want.shape))
    if got.shape != want.shape:
        return
    dev = np.abs(got - want)
    c.require(np.all(dev <= REL * mag + 1e-300),
              "ReceptorEstimator.capture on the filters' own domain equals the trapezoid integral",
              mechanism="est-value", max_dev=float(np.max(dev)))
    direct = np.asarray(c.call(dreye.calculate_capture, f, s, domain=dom_arg))
    c.require(np.array_equal(direct, got), "estimator capture == calculate_capture on the same arrays",
              mechanism="est-vs-function")
    c.nontrivial(f.shape[0] >= 2 and s.ndim == 2 and s.shape[0] >= 2)
    c.note("first_entries", {"got": got.ravel()[:3], "oracle": want.ravel()[:3]})


M.add("estimator_capture", gen_est, chk_est, weight=2, min_held=100)


# the repository's own tests as one more workload: contracts armed in situ (harness/observe.py)
from harness import observe as _observe  # noqa: E402
_observe.add_insitu_clause(M, ['capture.calculate_capture'], runtime)
