"""C09 — variance minimisation keeps the fit quality and minimises capture variance.

Events: (X, B_pred, B_var) from ReceptorEstimator.minimize_variance and est.Epsilon after
register_system.  Oracles: BVLS for the attainable error, SLSQP (analytic gradients) for the
minimal variance over the exact constraint set (witness required), closed forms for the variance
model and its propagation through K.
"""
import numpy as np
from scipy.optimize import minimize

from harness import runtime, oracles, gen
from harness.core import Monitor

dreye = None
cp = None


def _setup():
    global dreye, cp
    dreye = runtime.load_dreye()
    import cvxpy as cp_
    cp = cp_


M = Monitor(
    pid="C09",
    setup=_setup,
    title="Variance minimisation keeps the fit quality and minimises capture variance",
    rule=("cases: one bounded well-scaled system (2-4 receptors; underdetermined or exactly determined), K none/scalar/vector/"
          "matrix, 1-3 targets in or out of gamut, variance model in {explicit matrix, heteroscedastic default, derived from "
          "filter uncertainty}, L1 request none / scalar / per-row, l2_eps 1e-4..1e-2; solver default or Clarabel. "
          "non-trivial = surplus sources (variance can be traded) or out-of-gamut target or L1 request. distinct = hash of inputs"),
    budget={"quick": (640, 70), "thorough": (24000, 1500)},
    anchors=[("dreye.api.optimize.lsq_linear", "lsq_linear_minimize"), ("dreye.api.utils", "propagate_error"),
             ("dreye.api.estimator", "ReceptorEstimator.minimize_variance"),
             ("dreye.api.estimator", "ReceptorEstimator.uncertainty_capture")],
    deciding=["lsq_linear.lsq_linear_minimize", "estimator.ReceptorEstimator.minimize_variance", "utils.propagate_error"],
    required_cells={"all": ["eps=explicit", "eps=heteroscedastic", "eps=uncertainty", "L1=none", "L1=scalar", "L1=rows",
                            "target=in", "target=out", "under", "exact", "K=none", "K=scalar", "K=vector", "K=matrix",
                            "solver=default", "solver=clarabel"]},
    assumptions=["fit quality: err(X) <= err_opt(BVLS) + l2_eps + 2e-2 (default) / 2e-3 (Clarabel)",
                 "minimal variance: witness from SLSQP must meet the error bound shrunk by the first-stage solver accuracy (2e-4 default, 1e-6 Clarabel) and be lower by > 2e-3*(1+var)"],
)


def eps_prime(Eps, K, Mt):
    """Variance model after propagation through K (None -> heteroscedastic (K A)^2)."""
    if Eps is None:
        return Mt ** 2
    if K is None:
        return Eps
    K2 = np.asarray(K, float) ** 2
    if K2.ndim == 0:
        return Eps * K2
    if K2.ndim == 1:
        return Eps * K2[:, None]
    return K2 @ Eps


def min_variance(Mt, c0, lbv, ubv, b, w, e_allowed, evec, L1, l1_eps, starts):
    n = Mt.shape[1]
    Aw = Mt * w[:, None]
    bw = (b - c0) * w

    def f(x):
        return float(np.sum(evec * x * x)), 2 * evec * x

    def g(x):
        r = Aw @ x - bw
        return e_allowed ** 2 - r @ r

    def gj(x):
        return -2 * (Aw.T @ (Aw @ x - bw))
    cons = [{"type": "ineq", "fun": g, "jac": gj}]
    if L1 is not None:
        cons.append({"type": "ineq", "fun": lambda x: (L1 + l1_eps) - np.sum(x), "jac": lambda x: -np.ones(n)})
        cons.append({"type": "ineq", "fun": lambda x: np.sum(x) - (L1 - l1_eps), "jac": lambda x: np.ones(n)})
    best = None
    for x0 in starts:
        r = minimize(f, np.clip(x0, lbv, ubv), jac=True, method="SLSQP", bounds=list(zip(lbv, ubv)), constraints=cons,
                     options={"maxiter": 400, "ftol": 1e-14})
        x = np.clip(r.x, lbv, ubv)
        feas = np.linalg.norm(Aw @ x - bw) <= e_allowed and (L1 is None or abs(np.sum(x) - L1) <= l1_eps)
        if feas and (best is None or f(x)[0] < f(best)[0]):
            best = x
    return best


def min_error_given_l1(Mt, c0, lbv, ubv, b, L1, l1_eps, x0):
    """Smallest capture error over in-bound x with |sum x - L1| <= l1_eps (SLSQP; inf if the window is empty)."""
    n = Mt.shape[1]
    if np.sum(lbv) > L1 + l1_eps or np.sum(ubv) < L1 - l1_eps:
        return np.inf
    cons = [{"type": "ineq", "fun": lambda x: (L1 + l1_eps) - np.sum(x), "jac": lambda x: -np.ones(n)},
            {"type": "ineq", "fun": lambda x: np.sum(x) - (L1 - l1_eps), "jac": lambda x: np.ones(n)}]

    def f(x):
        r = Mt @ x + c0 - b
        return float(r @ r), 2 * Mt.T @ r
    best = np.inf
    for s0 in (x0, lbv + (ubv - lbv) * np.clip((L1 - np.sum(lbv)) / max(np.sum(ubv - lbv), 1e-300), 0, 1)):
        r = minimize(f, np.clip(s0, lbv, ubv), jac=True, method="SLSQP", bounds=list(zip(lbv, ubv)), constraints=cons,
                     options={"maxiter": 500, "ftol": 1e-16})
        x = np.clip(r.x, lbv, ubv)
        if abs(np.sum(x) - L1) <= l1_eps * (1 + 1e-9) + 1e-12:
            best = min(best, float(np.linalg.norm(Mt @ x + c0 - b)))
    return best


def gen_case(rng, i):
    m = int(rng.integers(2, 5))
    under = bool(i % 3)
    n = m + int(rng.integers(1, 4)) if under else m
    s = gen.make_system(rng, m=m, n=n, ubkind="finite")
    Mt, c0, lbv, ubv = gen.sys_arrays(s)
    N = int(rng.integers(1, 4))
    T, cls = [], []
    for r in range(N):
        x = gen.interior_x(rng, lbv, ubv, 1, margin=0.1)[0]
        bb = Mt @ x + c0
        if rng.integers(2):
            cls.append("in")
        else:
            bb = bb + rng.normal(0, 0.5, m) * float(np.max(np.abs(bb)))
            cls.append("out")
        T.append(np.clip(bb, -100, 100))
    ek = ["explicit", "heteroscedastic", "uncertainty"][i % 3]
    lk = ["none", "none", "scalar", "rows"][rng.integers(4)]
    if lk == "scalar":
        N = 1
        T, cls = T[:1], cls[:1]
    # L1 requests that are compatible with the best fit by construction (total of a best-fit solution), except for a
    # few deliberately incompatible ones (total far from every best fit)
    Xmid = np.array([oracles.bvls(Mt, c0, lbv, ubv, t)[0] for t in T])
    if lk != "none" and rng.integers(8) == 0:
        Xmid = Xmid * 0 + (ubv if rng.integers(2) else lbv)
    s.update({"B": np.array(T), "classes": cls, "epskind": ek,
              "Eps": rng.uniform(0.01, 1.0, (m, n)) * np.atleast_2d(s["A"]) ** 2 if ek == "explicit" else None,
              "sigma_rel": float(rng.uniform(0.05, 0.3)),
              # filter uncertainty given as S sampled filter sets (3-D) instead of a standard deviation (2-D)
              "unc_samples": int(rng.integers(3, 8)) if (ek == "uncertainty" and rng.integers(3) == 0) else 0,
              "unc_seed": int(rng.integers(0, 2 ** 31 - 1)),
              # sampling step of the spectra (the variance model is an integral over the domain as well)
              "unc_dx": float([1.0, 0.5, 2.0, 3.7][rng.integers(4)]) if ek == "uncertainty" else 1.0,
              "l1kind": lk, "L1": None if lk == "none" else (float(np.sum(Xmid[0])) if lk == "scalar" else np.sum(Xmid, axis=1)),
              "l2_eps": float(10 ** rng.uniform(-4, -2)), "l1_eps": float(10 ** rng.uniform(-3, -1.5)),
              "solver": ["default", "clarabel"][rng.integers(2)],
              # the batch size is a performance setting of the call (several samples stacked into one conic problem)
              "bs": [1, 1, 2, "full"][rng.integers(4)]})
    return s


def chk_case(inp, c):
    ok, info = gen.regime_report(inp["A"], inp["lb"], inp["ub"], inp["K"], inp["baseline"], inp["B"])
    if not ok:
        c.unmet("outside the well-scaled regime")
    Mt, c0, lbv, ubv = gen.sys_arrays(inp)
    m, n = Mt.shape
    B, N = inp["B"], len(inp["B"])
    ek = inp["epskind"]
    c.cell(*gen.sys_cells(inp), "eps=" + ek, "L1=" + inp["l1kind"], "solver=" + inp["solver"])
    for k in set(inp["classes"]):
        c.cell("target=" + k)
    filters, sources = gen.spectra_for_A(inp["A"])
    dx = float(inp.get("unc_dx", 1.0)) if inp.get("_live_estimator") is None else 1.0
    sources = sources / dx          # same capture matrix A on a domain with step dx
    kw0 = {}
    if inp["K"] is not None:
        kw0["K"] = inp["K"]
    if inp["baseline"] is not None:
        kw0["baseline"] = inp["baseline"]
    Eps_model = inp["Eps"]
    if ek == "uncertainty" and inp.get("unc_samples", 0):
        # uncertainty as samples of the filters: variance model = variance over the samples of their capture matrices
        c.cell("uncertainty=samples")
        ur = np.random.default_rng(int(inp["unc_seed"]))
        S = int(inp["unc_samples"])
        fs = filters[None] * (1.0 + inp["sigma_rel"] * ur.normal(0, 1, (S,) + filters.shape)) + 0.01 * ur.random((S,) + filters.shape)
        kw0["filters_uncertainty"] = fs
        w_dom = oracles.step_weights(filters.shape[1], dx, True)
        caps = np.array([oracles.capture_oracle(fs[k], sources, w_dom)[0] for k in range(S)])      # (S, n, m)
        Eps_model = np.var(caps, axis=0).T
    elif ek == "uncertainty":
        c.cell("uncertainty=std")
        sig = inp["sigma_rel"] * filters + 0.01 * (filters > 0)
        kw0["filters_uncertainty"] = sig
        w_dom = oracles.step_weights(filters.shape[1], dx, True)
        Eor, _ = oracles.capture_oracle(sig ** 2, sources ** 2, w_dom)     # (n, m)
        Eps_model = Eor.T
    est = inp.get("_live_estimator")
    if est is None:
        c.cell("domain-step=" + ("1" if dx == 1.0 else "other"))
        est = c.call(dreye.ReceptorEstimator, filters, domain=dx, _where="ReceptorEstimator", **kw0)
        c.call(est.register_system, sources, lb=inp["lb"], ub=inp["ub"], _where="register_system")
    if ek == "uncertainty":
        E = np.asarray(est.Epsilon)
        c.require(E.shape == (m, n) and np.all(np.abs(E - Eps_model) <= 1e-10 * np.abs(Eps_model) + 1e-300),
                  "default variance model is the registered filter uncertainty: capture of sigma^2 with sources^2 (std form) / "
                  "variance over the sampled filter sets of their capture (sample form)",
                  mechanism="epsilon-from-uncertainty", got=np.ravel(E)[:4], want=np.ravel(Eps_model)[:4])
    elif ek == "heteroscedastic":
        c.require(isinstance(est.Epsilon, str) and est.Epsilon == "heteroscedastic",
                  "without uncertainty the default variance model is 'heteroscedastic' (squared capture matrix)",
                  mechanism="epsilon-default", got=str(est.Epsilon)[:40])
    Ep = eps_prime(Eps_model, inp["K"], Mt)
    evec = Ep.sum(axis=0)
    tight = inp["solver"] == "clarabel"
    kw = dict(solver=cp.CLARABEL) if tight else {}
    tau_e = 2e-3 if tight else 2e-2
    args = dict(l2_eps=inp["l2_eps"], l1_eps=inp["l1_eps"])
    if inp.get("bs", 1) != 1 and N > 1:
        args["batch_size"] = inp["bs"]
        c.cell("batch=" + str(inp["bs"]))
    if inp["L1"] is not None:
        args["L1"] = inp["L1"]
    if ek == "explicit":
        args["Epsilon"] = inp["Eps"].copy()
    del c.events[:]          # only the events of the judged call
    ok_call, out = c.try_call(est.minimize_variance, B.copy(), **args, **kw)
    bad_st = sorted({str(f.get("status")) for kk_, f in c.events
                     if kk_ == "solve.status" and f.get("where") == "lsq_linear_minimize"} - {"optimal", "None"})
    for st_ in bad_st:
        c.cell("status=" + st_)

    def mech(base, excess=1.0):
        """Status-aware key: a variance-minimising solve that did not end 'optimal' is the mechanism; 'optimal_inaccurate'
        explains deviations up to 4x the tolerance only (larger ones are keyed ':gross', never a listed finding)."""
        if not bad_st:
            return base
        st = bad_st[0]
        return f"{base}@{st}" + (":gross" if (st == "optimal_inaccurate" and excess > 4.0) else "")
    if not ok_call:
        exc = out
        if inp["L1"] is not None:
            # raising is correct when no intensity vector meets the error bound and the L1 window together (whatever the
            # exception type: an infeasible conic problem may also surface as the solver's numerical failure)
            verdicts = []
            for r in range(N):
                L1r = float(inp["L1"]) if np.ndim(inp["L1"]) == 0 else float(inp["L1"][r])
                xo, eo = oracles.bvls(Mt, c0, lbv, ubv, B[r])
                emin = min_error_given_l1(Mt, c0, lbv, ubv, B[r], L1r, inp["l1_eps"], xo)
                verdicts.append("infeasible" if emin > eo + inp["l2_eps"] * 1.01 + 1e-6 else
                                ("feasible" if emin <= eo + 0.5 * inp["l2_eps"] else "band"))
            if "infeasible" in verdicts:
                c.cell("raise-ok:L1-incompatible")
                c.nontrivial()
                c.note("raised_correctly", {"verdicts": verdicts, "msg": str(exc)[:60]})
                return
            if "band" in verdicts:
                c.inconclusive("L1 request at the edge of feasibility")
        c.fail(f"ReceptorEstimator.minimize_variance raised {type(exc).__name__}: {str(exc)[:120]}",
               # a numerical solver failure with default settings is repaired in the repository (SCS fall-back): only a
               # failure of a solver the caller chose is a listed finding (one key, whatever the targets)
               mechanism=("raise:SolverError:feasible-request:explicit-solver"
                          if (type(exc).__name__ == "SolverError" and inp["solver"] != "default") else
                          f"raise:{type(exc).__name__}:feasible-request:" +
                          ("with-out-of-gamut-row" if "out" in inp["classes"] else "all-in-gamut")),
               l1=inp["l1kind"], solver=inp["solver"])
    if not c.require(isinstance(out, tuple) and len(out) == 3, "returns (X, B_pred, B_var)", mechanism="return-type"):
        return
    X, Bp, Bv = (np.asarray(o, float) for o in out)
    # a query is pure: the registered variance model is unchanged and asking again gives the same answer
    if ek == "uncertainty":
        c.require(np.allclose(np.asarray(est.Epsilon), Eps_model, rtol=1e-10, atol=1e-300),
                  "minimize_variance does not change the registered variance model", mechanism="epsilon-changed-by-query")
    if ek == "explicit":
        c.require(np.array_equal(args["Epsilon"], inp["Eps"]), "minimize_variance does not modify the variance matrix passed in",
                  mechanism="caller-array-modified:Epsilon")
    ok2, out2 = c.try_call(est.minimize_variance, B.copy(), **args, **kw)
    if ok2:
        c.require(np.allclose(np.asarray(out2[2], float), Bv, rtol=1e-6, atol=1e-12) and
                  np.allclose(np.asarray(out2[0], float), X, rtol=1e-5, atol=1e-7 * (1 + np.max(np.abs(X)))),
                  "asking twice gives the same intensities and variances", mechanism="second-call-differs")
    if not c.require(X.shape == (N, n) and Bp.shape == (N, m) and Bv.shape == (N, m) and np.all(np.isfinite(X)),
                     "finite results of shape (N,n)/(N,m)/(N,m)", mechanism="shape", X=list(X.shape), Bv=list(Bv.shape)):
        return
    rngx = ubv - lbv
    w = np.ones(m)
    outf = c.call(est.fit, B.copy(), _where="ReceptorEstimator.fit (ordinary fit for comparison)", **kw)
    Xfit = np.asarray(outf[0], float)
    gaps = []
    for r in range(N):
        x, b = X[r], B[r]
        viol = np.maximum(lbv - x, x - ubv)
        c.require(np.all(viol <= 0.01 * rngx), "intensities within the bounds", mechanism="bounds", row=r,
                  worst=float(np.max(viol)))
        xo, eo = oracles.bvls(Mt, c0, lbv, ubv, b, w)
        if xo is None:
            c.inconclusive("BVLS failed", abort=False)
            continue
        e = oracles.werr(Mt, c0, x, b, w)
        c.margin("error excess / (l2_eps + tau_e)", e - eo, inp["l2_eps"] + tau_e)
        c.require(e <= eo + inp["l2_eps"] + tau_e,
                  "capture error does not exceed the best achievable error by more than the requested tolerance",
                  mechanism=mech("fit-quality-lost", (e - eo) / (inp["l2_eps"] + tau_e)), row=r, err=e, err_opt=eo,
                  l2_eps=inp["l2_eps"], cls=inp["classes"][r])
        L1r = None
        if inp["L1"] is not None:
            L1r = float(inp["L1"]) if np.ndim(inp["L1"]) == 0 else float(inp["L1"][r])
            c.require(abs(np.sum(x) - L1r) <= inp["l1_eps"] + 1e-3 * (1 + abs(L1r)),
                      "total intensity matches the requested value within its tolerance", mechanism="l1-missed",
                      row=r, total=float(np.sum(x)), L1=L1r, l1_eps=inp["l1_eps"])
        want_var = (x ** 2) @ Ep.T
        c.require(np.all(np.abs(Bv[r] - want_var) <= 1e-9 * np.abs(want_var) + 1e-300),
                  "reported capture variance equals the variance model applied to the returned intensities",
                  mechanism="reported-variance", row=r, got=Bv[r], want=want_var, eps_kind=ek, K_kind=inp["kkind"])
        c.require(np.all(np.abs(Bp[r] - (Mt @ x + c0)) <= 1e-10 * (np.abs(Mt) @ np.abs(x) + np.abs(c0)) + 1e-12),
                  "predicted capture is the model's capture of the returned intensities", mechanism="prediction", row=r)
        var = float(np.sum(evec * x * x))
        tolv = 2e-3 * (1 + var)
        if L1r is None:
            vfit = float(np.sum(evec * Xfit[r] ** 2))
            allow = tolv + 2 * float(np.sum(evec * np.abs(Xfit[r]))) * tau_e
            efit = oracles.werr(Mt, c0, Xfit[r], b, w)
            if efit > e + 1e-9 * (1 + e):
                # the ordinary fit (same solver settings) is itself further from the target than the variance-minimised
                # solution: it lies outside the set over which the variance was minimised, so its variance proves nothing
                c.cell("ordinary-fit-worse-than-mv-solution")
            else:
                c.require(var <= vfit + allow,
                          "variance is never larger than that of the ordinary fit",
                          mechanism=mech("variance-above-ordinary-fit", (var - vfit) / allow), row=r, var=var, var_fit=vfit)
        # the L1 window may be incompatible with the error bound: then dreye may legitimately fail; here it returned
        # the attainable error is itself only known to the procedure up to its first-stage solver accuracy: the witness
        # must meet the error bound shrunk by that accuracy (it is then feasible for the procedure's own budget as well)
        acc = 1e-6 if tight else 2e-4
        budget = max(inp["l2_eps"] - acc, 0.1 * inp["l2_eps"])
        xw = min_variance(Mt, c0, lbv, ubv, b, w, eo + budget, evec, L1r, inp["l1_eps"],
                          [xo, np.clip(x, lbv, ubv), 0.5 * (lbv + ubv)])
        if xw is None:
            c.note("oracle_no_feasible_witness", True)
            continue
        vw = float(np.sum(evec * xw * xw))
        gaps.append(var - vw)
        c.margin("variance gap / tol", var - vw, tolv)
        c.require(var - vw <= tolv, "summed capture variance is minimal among all intensities meeting the conditions",
                  mechanism=mech("variance-not-minimal", (var - vw) / tolv), row=r, var=var, var_witness=vw, witness_x=xw, x=x,
                  cls=inp["classes"][r])
    c.nontrivial(n > m or "out" in inp["classes"] or inp["L1"] is not None)
    c.note("variance_gap_vs_witness", gaps)
    c.note("first_row", {"x": X[0], "B_var": Bv[0], "eps_kind": ek})


M.add("min_variance", gen_case, chk_case, weight=5, min_held=120)


def gen_rereg(rng, i):
    s = gen_case(rng, i)
    s["rereg_seed"] = int(rng.integers(0, 2 ** 31 - 1))
    if s["epskind"] == "uncertainty":          # the live estimator is built without filter uncertainty
        s["epskind"] = "heteroscedastic"
    return s


def chk_rereg(inp, c):
    """Variance minimisation uses the CURRENTLY registered system: ask, change one registration on the same estimator, ask
    again and judge the second answer against the new values."""
    gen.rereg_check(c, dreye, inp, lambda est: est.minimize_variance(inp["B"], solver=cp.CLARABEL), chk_case)


M.add("min_variance_after_reregistration", gen_rereg, chk_rereg, weight=1, min_held=20)


def gen_internal(rng, i):
    s = gen_case(rng, i)
    s["l1kind"], s["L1"] = "none", None
    if s["epskind"] == "uncertainty":
        s["epskind"] = "heteroscedastic"
    return s


def chk_internal(inp, c):
    """Registered-target mode: register_targets(B); fit(); minimize_variance()  -- the estimator then holds the fitted
    captures as its targets, and minimize_variance() without arguments must answer for THOSE targets exactly as
    minimize_variance(B_registered) does."""
    ok, info = gen.regime_report(inp["A"], inp["lb"], inp["ub"], inp["K"], inp["baseline"], inp["B"])
    if not ok:
        c.unmet("outside the well-scaled regime")
    est = c.call(gen.make_estimator, dreye, inp, _where="ReceptorEstimator+register_system")
    kw = dict(solver=cp.CLARABEL)
    c.call(est.register_targets, inp["B"].copy(), _where="register_targets")
    c.call(est.fit, _where="fit()", **kw)
    Breg = np.array(est.B, dtype=float)           # the targets registered now: the fitted captures
    args = dict(l2_eps=inp["l2_eps"])
    if inp["epskind"] == "explicit":
        args["Epsilon"] = inp["Eps"].copy()
    r = c.call(est.minimize_variance, _where="minimize_variance() [registered targets]", **args, **kw)
    c.require(r is est, "minimize_variance() without targets returns the estimator", mechanism="internal-returns-self")
    Xi, Bi = np.asarray(est.X, float), np.asarray(est.B, float)
    fresh = c.call(gen.make_estimator, dreye, inp, _where="fresh ReceptorEstimator")
    Xe, Be, Ve = c.call(fresh.minimize_variance, Breg.copy(), _where="minimize_variance(B) [explicit, fresh estimator]", **args, **kw)
    sc = 1.0 + float(np.max(np.abs(Be)))
    c.cell("internal-mode")
    c.require(Bi.shape == np.shape(Be) and np.all(np.abs(Bi - Be) <= 2e-3 * sc + 2 * inp["l2_eps"]),
              "registered-target mode gives the same captures as the explicit call for the same targets",
              mechanism="internal-vs-explicit", max_dev=float(np.max(np.abs(Bi - Be))) if Bi.shape == np.shape(Be) else None)
    Mt, c0, lbv, ubv = gen.sys_arrays(inp)
    err = np.linalg.norm(Xi @ Mt.T + c0 - Breg, axis=1)
    c.require(np.all(err <= inp["l2_eps"] + 2e-3), "registered-target mode keeps the fit quality for the registered (fitted, in-gamut) targets",
              mechanism="internal-fit-quality-lost", worst=float(np.max(err)), l2_eps=inp["l2_eps"])
    c.nontrivial()
    c.note("internal_vs_explicit_max_dev", float(np.max(np.abs(Bi - Be))))


M.add("registered_target_mode", gen_internal, chk_internal, weight=1, min_held=20)
