"""C18 — gamut-size and divergence metrics equal their geometric / information definitions.

Events: every return value of dreye.compute_volume / compute_mean_width / compute_gamut /
compute_jensen_shannon_divergence / compute_jensen_shannon_similarity and of
ReceptorEstimator.compute_gamut made by the workload.

Oracles (numpy / scipy.special only, nothing from dreye, no qhull):
* volume      : closed forms |det M| (box), |det M|/k! (simplex), 2^k |det M|/k! (cross-polytope) of affine images
                with convex mixtures added; own monotone-chain hull + shoelace in 2-D; max-min in 1-D; the same
                clouds embedded isometrically (random orthonormal frame) in more dimensions (flat clouds).
* mean width  : zonotope closed form sum|g_i| Gamma(d/2)/(sqrt(pi) Gamma((d+1)/2)); perimeter/pi of the own hull
                in 2-D; the Monte-Carlo error is bounded with the *exact* variance of the per-direction width
                (closed form for zonotopes, rigorous quadrature bound for polygons) through the Bernstein and
                Hoeffding inequalities at failure probability 1e-12 per comparison.
* relations   : twin runs of the real code (translation, rotation, positive scaling, added points, per-row intensity
                scaling, cloud relative to itself / to a superset, same seed twice, vectorised or not).
* chromatic   : own barycentric coordinates b = x/sum(x) placed on the unit-edge regular simplex (b/sqrt(2)); closed
                form |det B| sqrt(m)/((m-1)! 2^((m-1)/2)) for the hull of m chromaticities and their mixtures.
* JSD         : own evaluation of 1/2 KL(p||m) + 1/2 KL(q||m) in bits with 0 log 0 = 0, Pinsker lower bound.

Clauses: volume (full-rank clouds), volume_flat (rank-deficient clouds, PCA fallback), mean_width, gamut,
estimator_fraction, jensen_shannon, volume_extreme (regimes outside the stated assumptions, own mechanism keys).

Mechanisms that fire on the pinned tree (genuine, reported for known_findings.json):
* gamut-volume-ratio-gt1:lower-rank-subset        k-volume of a chromatically flat subset divided by the d-volume of
                                                  its superset (also through ReceptorEstimator.compute_gamut with fewer
                                                  sources than receptors and through at_l1 slices that are flatter)
* volume-raises:fewer-points-than-dims-minus-one  PCA(n_dims-1) on fewer samples raises ValueError (2 points in 4-D)
* volume-zero:allclose-early-return               np.allclose(X, X[0]) with default tolerances: offset >= 1e5 extents or
                                                  extent <= 1e-8 gives volume 0                       (volume_extreme)
* volume-rank-underestimated:thin-flat-cloud      flat clouds thinner than ~316:1 measured in too few dimensions
                                                  (same root cause as C17 slice-support:flat-cloud-rank-underestimated)
"""
import math

import numpy as np
from scipy.special import gammaln

from harness import runtime, oracles, gen
from harness.core import Monitor

dreye = None
Mx = None     # dreye.api.metrics
Bx = None     # dreye.api.barycentric


def _setup():
    global dreye, Mx, Bx
    import importlib
    dreye = runtime.load_dreye()
    Mx = importlib.import_module("dreye.api.metrics")
    Bx = importlib.import_module("dreye.api.barycentric")


# ------------------------------------------------------------------ tolerances (worst seen on the unchanged tree)
TOL_VOL = 1e-9        # analytic volume / relations, full-dimensional clouds, relative      (seen 4e-13)
TOL_VOL_FLAT = 1e-6   # the same for rank-deficient clouds (PCA fallback), relative          (seen 4e-13)
TOL_MW = 1e-12        # exact mean-width relations with the same seed, x (width + |coordinates|)   (seen 2e-15)
TOL_GAMUT = 1e-9      # gamut relations, relative                                            (seen 3e-14)
TOL_SELF = 1e-12      # gamut relative to itself                                             (seen 0)
TOL_JSD = 1e-12       # divergence vs own evaluation, absolute                               (seen 3e-16)
BAND = 1e-8           # indeterminate band of flat clouds: ratio of a rounding-noise d-volume to a k-volume (seen 6e-17)
MAX_ASPECT = 30.0     # flat clouds of the property clauses: sqrt(largest / smallest variance) within the span
P_FALSE = 1e-12       # failure probability of one Monte-Carlo comparison
LOGP = math.log(2.0 / P_FALSE)

VOL_CLASSES = ["box", "simplex", "cross", "random", "identical", "few-points"]
MW_CLASSES = ["zonotope", "segment", "polygon", "random", "zonotope"]
GAMUT_CLASSES = ["generic", "mixtures", "flat", "generic-zeros", "single"]
JSD_CLASSES = ["generic", "zeros-one", "zeros-both", "equal", "proportional", "disjoint", "matrix", "large",
               "close", "single-entry", "counts"]
EXTREME_CLASSES = ["far-offset", "tiny", "thin-flat"]

M = Monitor(
    pid="C18",
    setup=_setup,
    decoy=True,
    title="Gamut-size and divergence metrics equal their geometric/information definitions",
    rule=("cases: point clouds of ambient dimension 1..5 (enumerated by the case index) and affine rank 1..d: affine images "
          "(condition <= 30, flat ones aspect <= 30) of unit boxes, simplices, cross-polytopes with 0-12 convex mixtures "
          "added, random clouds, identical points, clouds with fewer points than dimensions, embedded through a random "
          "orthonormal frame, offset up to 100x their extent; each with a translation, a rotation, a scaling 1e-2..1e2 and "
          "added points; mean width with n in {50, 1000, 3000}, seeds 0..2^32, centred or not, vectorised or not; capture "
          "clouds with 2..6 receptors (chromatic dimension 1..5), generic / mixtures of m chromaticities / chromatically "
          "flat / with zero rows / a single chromaticity, per-row intensity factors 1e-3..1e3, a superset, a slice total; "
          "estimators built from a prescribed capture matrix and from Gaussian spectra on scalar / uniform / non-uniform "
          "domains, finite bounds; vector pairs of length 1..40 of 11 classes. non-trivial = volume: affine rank >= 2 "
          "and more than rank+1 points; mean width: d >= 2 and >= 3 points; gamut: >= 3 receptors and a positive gamut; "
          "estimator: >= 2 sources; divergence: >= 2 entries and non-proportional inputs. distinct = hash of the inputs"),
    budget={"quick": (2600, 38), "thorough": (72000, 560)},
    anchors=[("dreye.api.metrics", "compute_volume"), ("dreye.api.metrics", "compute_mean_width"),
             ("dreye.api.metrics", "compute_gamut"), ("dreye.api.metrics", "compute_jensen_shannon_divergence"),
             ("dreye.api.metrics", "compute_jensen_shannon_similarity"),
             ("dreye.api.project", "proj_P_for_hull"), ("dreye.api.project", "proj_P_to_simplex"),
             ("dreye.api.barycentric", "barycentric_dim_reduction"),
             ("dreye.api.estimator", "ReceptorEstimator.compute_hull"),
             ("dreye.api.estimator", "ReceptorEstimator.compute_gamut")],
    deciding=["metrics.compute_volume", "metrics.compute_mean_width", "metrics.compute_gamut",
              "metrics.compute_jensen_shannon_divergence", "metrics.compute_jensen_shannon_similarity",
              "project.proj_P_for_hull", "estimator.ReceptorEstimator.compute_hull"],
    required_cells={"all": (["vol:d=%d" % d for d in range(1, 6)] + ["vol:class=" + k for k in VOL_CLASSES]
                            + ["vol:flat", "vol:full-rank", "vol:oracle=closed-form", "vol:oracle=shoelace",
                               "vol:oracle=max-min", "vol:input=1-D array", "vol:pca-fallback", "vol:flat:value-decided"]
                            + ["vol:flat:d=%d:k=%d" % (d, k) for d in range(2, 6) for k in range(1, d)]
                            + ["mw:d=%d" % d for d in range(1, 6)] + ["mw:class=" + k for k in set(MW_CLASSES)]
                            + ["mw:center=True", "mw:center=False", "mw:vectorized=True", "mw:vectorized=False",
                               "mw:flat", "mw:n=50", "mw:n=1000", "mw:n=3000"]
                            + ["gamut:m=%d" % m for m in range(2, 7)] + ["gamut:class=" + k for k in GAMUT_CLASSES]
                            + ["gamut:metric=width", "gamut:metric=volume", "gamut:center=True", "gamut:center=False",
                               "gamut:center_to_neutral=True", "gamut:superset:equal-rank",
                               "gamut:superset:lower-rank", "gamut:at_l1:slice", "gamut:at_l1:one-sided",
                               "gamut:oracle=closed-form", "gamut:flat:volume-decided", "gamut:at_l1:from-origin"]
                            + ["est:kind=system", "est:kind=spectra", "est:metric=width", "est:metric=volume",
                               "est:lb=pos", "est:lb=zero", "est:chromatic-rank=full", "est:chromatic-rank=lower"]
                            + ["jsd:class=" + k for k in JSD_CLASSES]
                            + ["extreme:" + k for k in EXTREME_CLASSES])},
    assumptions=["float64; clouds of the property clauses have extent 1e-4..1e4, offsets up to 100x the extent and, when flat, "
                 "aspect ratio <= 30:1 within their span (the rank decision of proj_P_for_hull for thinner flat clouds, "
                 "clouds offset by >= 1e5 extents and clouds smaller than 1e-8 are probed separately in volume_extreme "
                 "under their own mechanism keys)",
                 "Monte-Carlo comparisons use min(Bernstein, Hoeffding) deviation bounds at failure probability 1e-12 each, "
                 "with the exact variance of the width over the unit sphere (closed form for zonotopes, quadrature with a "
                 "Lipschitz error bound for polygons) or variance <= diameter^2/4 otherwise",
                 "monotonicity of the volume under added points is asserted for points added within the affine span of the "
                 "cloud (a k-volume cannot be compared with a (k+1)-volume)",
                 "volume ratio <= 1 relative to a superset is required for every cloud; it is classified by the chromatic "
                 "affine rank of subset and superset (own SVD, relative tolerance 1e-9)",
                 "the estimator's fraction is required to be > 0 only when its corner captures have two different "
                 "chromaticities (>= 2 sources that are not proportional); otherwise 0 is the correct value",
                 "indeterminate band of flat clouds: a cloud that is flat in exact arithmetic is given with rounding noise "
                 "(~1e-16 x its coordinates); in ~0.05% of the flat cases qhull accepts the noise as thickness and the code "
                 "returns the d-volume (<= 1e-13 x) of the literal input instead of the k-volume of the flat cloud.  Pairs of "
                 "values of which one is <= 1e-8 x the other are not compared (case counted unmet, cell "
                 "'...:indeterminate-band'); the cells 'vol:flat:value-decided' / 'gamut:flat:volume-decided' and the "
                 "min_held of clause volume_flat make a run inconclusive if flat clouds stop being decided",
                 "divergence: vectors with a positive entry (an all-zero vector has no normalised form); values <= 1e100"],
)


# ================================================================== own oracles

def _orth(rng, d):
    """Haar-distributed rotation matrix (det +1)."""
    if d == 1:
        return np.ones((1, 1))
    Q, R = np.linalg.qr(rng.normal(size=(d, d)))
    Q = Q * np.sign(np.diag(R))
    if np.linalg.det(Q) < 0:
        Q[:, 0] = -Q[:, 0]
    return Q


def _frame(rng, d, k):
    """d x k matrix with orthonormal columns."""
    Q, _ = np.linalg.qr(rng.normal(size=(d, d)))
    return Q[:, :k]


def hull2d(P):
    """Andrew's monotone chain; vertices counter-clockwise, collinear points dropped."""
    pts = sorted(set(map(tuple, np.asarray(P, dtype=float))))
    if len(pts) <= 2:
        return np.array(pts, dtype=float).reshape(len(pts), 2)

    def cross(o, a, b):
        return (a[0] - o[0]) * (b[1] - o[1]) - (a[1] - o[1]) * (b[0] - o[0])
    lower = []
    for p in pts:
        while len(lower) >= 2 and cross(lower[-2], lower[-1], p) <= 0:
            lower.pop()
        lower.append(p)
    upper = []
    for p in reversed(pts):
        while len(upper) >= 2 and cross(upper[-2], upper[-1], p) <= 0:
            upper.pop()
        upper.append(p)
    return np.array(lower[:-1] + upper[:-1], dtype=float)


def shoelace(V):
    if len(V) < 3:
        return 0.0
    x, y = V[:, 0] - V[0, 0], V[:, 1] - V[0, 1]
    return 0.5 * abs(float(np.sum(x * np.roll(y, -1) - np.roll(x, -1) * y)))


def perimeter(V):
    if len(V) < 2:
        return 0.0
    return float(np.sum(np.linalg.norm(V - np.roll(V, -1, axis=0), axis=1)))


def diameter(X):
    X = np.asarray(X, dtype=float)
    if X.ndim == 1:
        X = X[:, None]
    G = X @ X.T
    sq = np.diag(G)
    return float(np.sqrt(max(np.max(sq[:, None] + sq[None, :] - 2 * G), 0.0)))


def width_const(d):
    """E|u_1| for u uniform on the unit sphere of R^d."""
    return math.exp(gammaln(d / 2.0) - gammaln((d + 1) / 2.0)) / math.sqrt(math.pi)


def zonotope_width_moments(G, d):
    """mean and standard deviation of W(u) = sum_i |g_i.u| over the unit sphere (closed forms)."""
    nr = np.linalg.norm(G, axis=1)
    keep = nr > 0
    G, nr = G[keep], nr[keep]
    if len(nr) == 0:
        return 0.0, 0.0
    w = float(nr.sum() * width_const(d))
    rho = np.clip((G @ G.T) / np.outer(nr, nr), -1.0, 1.0)
    ew2 = float(np.sum(np.outer(nr, nr) * (2.0 / math.pi) * (np.sqrt(1.0 - rho * rho) + rho * np.arcsin(rho))) / d)
    var = max(ew2 - w * w, 0.0) + 1e-12 * w * w
    return w, math.sqrt(var)


def polygon_width_moments(V, n_grid=32768):
    """mean (exact: perimeter/pi) and an upper bound of the standard deviation of the width of a polygon over the
    unit circle: Riemann sum of W^2 plus the Lipschitz error bound 2 D^2 * (2 pi / n_grid)."""
    w = perimeter(V) / math.pi
    if len(V) < 2:
        return 0.0, 0.0, 0.0
    th = (np.arange(n_grid) + 0.5) * (2 * math.pi / n_grid)
    U = np.stack([np.cos(th), np.sin(th)])
    pr = V @ U
    W = pr.max(axis=0) - pr.min(axis=0)
    D = diameter(V)
    ew2 = float(np.mean(W * W)) + 2.0 * D * D * (2 * math.pi / n_grid)
    return w, math.sqrt(max(ew2 - w * w, 0.0)), D


def mc_bound(n, sigma, R):
    """Deviation t with P(|mean of n iid - mu| >= t) <= P_FALSE for variables within R of mu and std <= sigma."""
    th = R * math.sqrt(LOGP / (2.0 * n))
    a = LOGP * R / 3.0
    tb = (a + math.sqrt(a * a + 2.0 * n * LOGP * sigma * sigma)) / n
    return min(th, tb)


def simplex_coords(X):
    """Own chromatic coordinates: b = x / sum(x) on the unit-edge regular simplex {b / sqrt(2)}, expressed in an
    orthonormal basis of the hyperplane (m-1 columns)."""
    X = np.asarray(X, dtype=float)
    m = X.shape[1]
    b = X / X.sum(axis=1, keepdims=True)
    # orthonormal basis of {v : sum v = 0}
    Hm = np.linalg.qr(np.eye(m) - 1.0 / m)[0][:, :m - 1]
    return (b - 1.0 / m) @ Hm / math.sqrt(2.0), b


def unit_simplex_volume(m):
    """(m-1)-volume of the regular simplex with m vertices and unit edges."""
    k = m - 1
    return math.sqrt(m) / (math.factorial(k) * 2.0 ** (k / 2.0))


def affine_rank(Y, rtol=1e-9, atol=1e-9):
    """Affine rank from the singular values of the centred cloud: those above rtol * largest and above
    atol * max|coordinate| (a cloud whose extent is rounding noise of its coordinates is a single point)."""
    Y = np.asarray(Y, dtype=float)
    if Y.ndim == 1:
        Y = Y[:, None]
    if len(Y) < 2:
        return 0, np.zeros(0)
    s = np.linalg.svd(Y - Y.mean(axis=0), compute_uv=False)
    floor = atol * float(np.max(np.abs(Y))) * math.sqrt(len(Y))
    if s[0] <= floor:
        return 0, s
    return int(np.sum(s > max(rtol * s[0], floor))), s


def aspect_ratio(Y):
    r, s = affine_rank(Y)
    if r == 0:
        return 1.0
    return float(s[0] / s[r - 1])


def _scalar(c, v, what, mech):
    ok = isinstance(v, (int, float, np.integer, np.floating)) or (isinstance(v, np.ndarray) and v.ndim == 0)
    if ok:
        try:
            ok = bool(np.isfinite(float(v)))
        except Exception:  # noqa
            ok = False
    if not ok:
        c.fail(what + " returns a finite real scalar", mechanism=mech, got=repr(v)[:120])
    return float(v)


def _close(c, got, want, tol, what, mech, **detail):
    dev = abs(got - want)
    c.margin(what, dev, tol if tol > 0 else 1e-300)
    return c.require(dev <= tol, what, mechanism=mech, got=got, want=want, deviation=dev, tolerance=tol, **detail)


# ================================================================== clause 1: compute_volume

def _base_shape(rng, cls, k):
    """corner points (rows) of a k-dimensional body and its k-volume."""
    if cls == "box":
        C = np.array(np.meshgrid(*[[0.0, 1.0]] * k, indexing="ij")).reshape(k, -1).T
        return C, 1.0
    if cls in ("simplex", "few-points"):
        return np.vstack([np.zeros(k), np.eye(k)]), 1.0 / math.factorial(k)
    if cls == "cross":
        return np.vstack([np.eye(k), -np.eye(k)]), 2.0 ** k / math.factorial(k)
    raise ValueError(cls)


def _lin_map(rng, k, cond):
    if k == 1:
        return np.array([[float(np.exp(rng.uniform(-2, 2))) * (1 if rng.integers(2) else -1)]])
    s = np.exp(rng.uniform(0, np.log(cond), k))
    s[0], s[-1] = 1.0, cond ** rng.uniform(0, 1)
    s = s / s.max() * float(np.exp(rng.uniform(-2, 2)))
    return _orth(rng, k) @ np.diag(s) @ _orth(rng, k).T


VOL_FULL_CLASSES = ["box", "simplex", "cross", "random", "identical"]
VOL_FLAT_CLASSES = ["box", "simplex", "cross", "random", "few-points"]


def _gen_volume(rng, i, flat):
    if flat:
        d = 2 + i % 4
        cls = VOL_FLAT_CLASSES[(i // 4) % len(VOL_FLAT_CLASSES)]
        k = 1 + (i // (4 * len(VOL_FLAT_CLASSES))) % (d - 1)
        if cls == "few-points":
            if d >= 4:
                k = int(rng.integers(1, d - 2))          # k+1 points < d-1
            else:
                cls = "simplex"
    else:
        d = 1 + i % 5
        cls = VOL_FULL_CLASSES[(i // 5) % len(VOL_FULL_CLASSES)]
        k = d
    want = None
    if cls == "identical":
        npts = int(rng.integers(1, 9))
        base = rng.normal(0, 1, (1, k)) * np.ones((npts, 1))
        pts, want, k_true = base, 0.0, 0
        Mk = np.eye(k)
    else:
        for attempt in range(50):
            Mk = _lin_map(rng, k, 8.0 if flat else 30.0)
            if cls == "random":
                npts = int(rng.integers(k + 2, 40))
                raw = rng.normal(0, 1, (npts, k)) if rng.integers(2) else rng.uniform(-1, 1, (npts, k))
                bvol = None
            else:
                C, bvol = _base_shape(rng, cls, k)
                nx = 0 if cls == "few-points" else int(rng.integers(0, 13))
                inner = rng.dirichlet(np.ones(len(C)) * float(rng.choice([0.3, 1.0, 3.0])), nx) @ C if nx else np.zeros((0, k))
                raw = np.vstack([C, inner])
            pts = raw @ Mk.T
            if not flat or aspect_ratio(pts) <= MAX_ASPECT:
                break
        k_true = k
        if bvol is not None:
            want = bvol * abs(float(np.linalg.det(Mk)))
        elif k == 1:
            want = float(pts.max() - pts.min())
        elif k == 2:
            want = shoelace(hull2d(pts))
    pts = pts[rng.permutation(len(pts))]
    F = _frame(rng, d, k) if k < d else _orth(rng, d)
    ext = max(float(np.max(pts.max(0) - pts.min(0))), 1e-3)
    off = rng.normal(0, 1, d) * ext * float(rng.choice([0.0, 1.0, 10.0, 100.0]))
    X = pts @ F.T + off
    # extra points within the same affine span (some outside the hull), for monotonicity
    ny = int(rng.integers(1, 6))
    Yk = (rng.normal(0, 1.0, (ny, k)) @ Mk.T) * float(rng.choice([0.5, 1.5])) + pts.mean(0)
    Y = Yk @ F.T + off
    return {"d": d, "k": int(k_true), "cls": cls, "X": X, "Y": Y, "want": want,
            "aspect": float(aspect_ratio(pts)) if k_true >= 1 else 1.0,
            "t": rng.normal(0, 1, d) * ext * float(rng.choice([0.1, 1.0, 100.0])),
            "Q": _orth(rng, d) if d > 1 else -np.ones((1, 1)),
            "s": float(np.exp(rng.uniform(np.log(1e-2), np.log(1e2)))) if rng.integers(4) else float(2.0 ** int(rng.integers(-6, 7))),
            "as1d": bool(d == 1 and rng.integers(2))}


def gen_volume(rng, i):
    return _gen_volume(rng, i, False)


def gen_volume_flat(rng, i):
    return _gen_volume(rng, i, True)


def _volume_of(c, A):
    return _scalar(c, c.call(Mx.compute_volume, np.array(A, copy=True), _where="compute_volume"),
                   "compute_volume", "volume-result-type")


def _in_band(a, b):
    """Floating-point indeterminate band of rank-deficient clouds: a cloud that is flat in exact arithmetic carries
    rounding noise of ~1e-16 x its coordinates; when qhull accepts that noise as thickness the code returns the
    (correct) d-volume ~1e-13 or less of the literal input instead of the k-volume of the flat cloud next to it.  Two
    values of which one is below BAND x the other are such a pair: not comparable, no verdict."""
    lo, hi = min(abs(a), abs(b)), max(abs(a), abs(b))
    return hi > 0 and lo <= BAND * hi


class _Flat:
    """comparison helper that routes pairs in the indeterminate band of flat clouds away from the verdict"""

    def __init__(self, c, flat, cell):
        self.c, self.flat, self.cell, self.hits = c, flat, cell, []

    def band(self, a, b, what):
        if self.flat and _in_band(a, b):
            self.hits.append(what)
            self.c.cell(self.cell)
            return True
        return False

    def close(self, got, want, tol, what, mech, **detail):
        if self.band(got, want, what):
            return True
        return _close(self.c, got, want, tol, what, mech, **detail)

    def finish(self):
        if self.hits:
            self.c.note("indeterminate_band", self.hits[:6])
            self.c.unmet("flat cloud in floating point: qhull took the rounding noise for thickness in one of the runs "
                         "(d-volume of the literal input vs k-volume of the flat cloud; indeterminate)", abort=False)


def chk_volume(inp, c):
    X, Y, d, k, cls = inp["X"], inp["Y"], int(inp["d"]), int(inp["k"]), inp["cls"]
    flat = 1 <= k < d
    n = len(X)
    c.cell("vol:d=%d" % d, "vol:class=" + cls, "vol:k=%d" % k, "vol:flat" if flat else "vol:full-rank")
    if flat:
        c.cell("vol:flat:d=%d:k=%d" % (d, k), "vol:pca-fallback")
    arg = (lambda A: A[:, 0]) if inp["as1d"] else (lambda A: A)
    if inp["as1d"]:
        c.cell("vol:input=1-D array")
    if flat and float(inp["aspect"]) > MAX_ASPECT:
        c.unmet("flat cloud with aspect ratio > 30:1 (probed in volume_extreme)")
    tol = TOL_VOL_FLAT if flat else TOL_VOL
    fb = _Flat(c, flat, "vol:flat:indeterminate-band")
    few = (n < d - 1)
    if few:
        # fewer points than dimensions - 1: on the pinned tree the PCA fallback asks for more components than samples
        ok, v = c.try_call(Mx.compute_volume, arg(X).copy())
        if not ok:
            c.note("raised", "%s: %s" % (type(v).__name__, str(v)[:160]))
            c.fail("compute_volume returns the k-volume of a cloud with fewer points than dimensions - 1 "
                   "(raised %s)" % type(v).__name__, mechanism="volume-raises:fewer-points-than-dims-minus-one",
                   n_points=n, d=d, error=str(v)[:200])
        v0 = _scalar(c, v, "compute_volume", "volume-result-type")
    else:
        v0 = _volume_of(c, arg(X))
    want = inp["want"]
    c.require(v0 >= 0.0, "volume is non-negative", mechanism="volume-negative", got=v0)
    if want is not None:
        want = float(want)
        if cls == "identical":
            c.cell("vol:oracle=zero")
            c.require(v0 == 0.0, "all points identical: volume is 0", mechanism="volume-identical", got=v0)
        else:
            c.cell("vol:oracle=max-min" if k == 1 else
                   "vol:oracle=closed-form" if cls in ("box", "simplex", "cross", "few-points") else "vol:oracle=shoelace")
            if fb.close(v0, want, tol * want, "volume equals the analytic k-volume of the convex hull within its affine span",
                        "volume-value%s" % (":flat" if flat else ""), d=d, k=k, cls=cls) and flat and not fb.hits:
                c.cell("vol:flat:value-decided")
    scale_ref = max(v0, want or 0.0)
    rtol = tol * scale_ref
    # translation
    vt = _volume_of(c, arg(X + inp["t"]))
    fb.close(vt, v0, rtol, "volume is invariant to translation", "volume-translation", d=d, k=k)
    # rotation
    vq = _volume_of(c, arg(X @ inp["Q"].T))
    fb.close(vq, v0, rtol, "volume is invariant to rotation", "volume-rotation", d=d, k=k)
    # homogeneity
    s = float(inp["s"])
    vs = _volume_of(c, arg(X * s))
    if cls != "identical":
        if not fb.band(vs / s ** k, v0, "homogeneity"):
            _close(c, vs, s ** k * v0, tol * s ** k * scale_ref,
                   "volume is homogeneous: vol(sX) = s^k vol(X), k the affine rank", "volume-homogeneity", d=d, k=k, s=s)
    else:
        c.require(vs == 0.0, "all points identical: volume is 0", mechanism="volume-identical", got=vs)
    # monotone under added points (within the span)
    if cls != "identical" and not few:
        vy = _volume_of(c, arg(np.vstack([X, Y])))
        if not fb.band(vy, v0, "monotone"):
            c.margin("volume monotone (relative decrease)", max(v0 - vy, 0.0), max(rtol, 1e-300))
            c.require(vy >= v0 - rtol, "volume is non-decreasing when points are added", mechanism="volume-monotone",
                      before=v0, after=vy, d=d, k=k)
        # duplicates / convex mixtures of existing points do not change it
        lam = np.random.default_rng(n).dirichlet(np.ones(n), 3)
        vd = _volume_of(c, arg(np.vstack([X, lam @ X, X[:2]])))
        fb.close(vd, v0, rtol, "adding convex mixtures and duplicates of existing points leaves the volume unchanged",
                 "volume-interior-points", d=d, k=k)
    c.nontrivial(k >= 2 and n > k + 1)
    c.note("volume", {"observed": v0, "oracle": want, "translated": vt, "rotated": vq,
                      "scaled/s^k": vs / s ** k if k else vs, "d": d, "affine_rank": k, "n_points": n})
    fb.finish()


M.add("volume", gen_volume, chk_volume, weight=2, min_held=100)
M.add("volume_flat", gen_volume_flat, chk_volume, weight=2, min_held=100)


# ================================================================== clause 2: compute_mean_width

def gen_mean_width(rng, i):
    d = 1 + i % 5
    cls = MW_CLASSES[(i // 5) % len(MW_CLASSES)]
    if d == 1:
        cls = "line"
    elif cls == "polygon" and d != 2:
        cls = "random"
    G = None
    if cls in ("zonotope", "segment"):
        kg = 1 if cls == "segment" else int(rng.integers(1, 7))
        G = rng.normal(0, 1, (kg, d)) * np.exp(rng.uniform(-1.5, 1.5, (kg, 1))) * float(np.exp(rng.uniform(-2, 2)))
        if kg >= 2 and rng.integers(4) == 0:
            G[1] = G[0] * rng.uniform(-2, 2)               # parallel generators
        S = np.array(np.meshgrid(*[[0.0, 1.0]] * kg, indexing="ij")).reshape(kg, -1).T
        nx = int(rng.integers(0, 10))
        inner = rng.uniform(0, 1, (nx, kg))
        pts = np.vstack([S, inner]) @ G
    elif cls == "line":
        pts = rng.normal(0, 1, (int(rng.integers(1, 20)), 1)) * float(np.exp(rng.uniform(-2, 2)))
    else:
        npts = int(rng.integers(1, 40)) if rng.integers(8) == 0 else int(rng.integers(3, 40))
        if i % 25 == 11:
            npts = int([1025, 1500, 2049, 3000, 5000][rng.integers(5)])     # large clouds (internal chunking / fast paths)
        pts = rng.normal(0, 1, (npts, d)) * np.exp(rng.uniform(-1, 1, d)) * float(np.exp(rng.uniform(-2, 2)))
        pts = pts @ _orth(rng, d).T
    pts = pts[rng.permutation(len(pts))]
    ext = max(float(np.max(pts.max(0) - pts.min(0))), 1e-3)
    X = pts + rng.normal(0, 1, d) * ext * float(rng.choice([0.0, 1.0, 10.0]))
    ny = int(rng.integers(1, 6))
    Y = X[rng.integers(len(X), size=ny)] + rng.normal(0, 0.7, (ny, d)) * ext
    return {"d": d, "cls": cls, "X": X, "Y": Y, "G": G,
            # number of random directions: the default, small, large, and values that are not a multiple of any
            # plausible internal block size
            "n": int([50, 1000, 1000, 3000, 800, 1237, 2300, 517][int(rng.integers(8))]),
            "seed": int(rng.integers(0, 2 ** 32)) if rng.integers(4) else int(rng.integers(0, 3)),
            "center": bool(rng.integers(2)), "vectorized": bool(rng.integers(2)),
            "t": rng.normal(0, 1, d) * ext * float(rng.choice([0.3, 3.0, 30.0])),
            "Q": _orth(rng, d) if d > 1 else -np.ones((1, 1)),
            "s": float(np.exp(rng.uniform(np.log(1e-2), np.log(1e2)))),
            "as1d": bool(d == 1 and rng.integers(2))}


def chk_mean_width(inp, c):
    X, Y, d, cls, G = inp["X"], inp["Y"], int(inp["d"]), inp["cls"], inp["G"]
    n, seed, center, vec = int(inp["n"]), int(inp["seed"]), bool(inp["center"]), bool(inp["vectorized"])
    c.cell("mw:d=%d" % d, "mw:class=" + cls, "mw:center=%s" % center, "mw:vectorized=%s" % vec, "mw:n=%d" % n)
    arg = (lambda A: A[:, 0]) if inp["as1d"] else (lambda A: A)

    def W(A, **over):
        kw = {"n": n, "seed": seed, "center": center, "vectorized": vec}
        kw.update(over)
        return _scalar(c, c.call(Mx.compute_mean_width, np.array(arg(A), copy=True), _where="compute_mean_width", **kw),
                       "compute_mean_width", "width-result-type")

    w0 = W(X)
    w0b = W(X)
    c.require(w0 == w0b, "mean width is deterministic per seed (bit-identical on a second call)",
              mechanism="width-not-deterministic", first=w0, second=w0b, seed=seed)
    c.require(w0 >= 0.0, "mean width is non-negative", mechanism="width-negative", got=w0)
    mag = float(np.max(np.abs(X)))
    D = diameter(X)
    # ---- value
    want, sigma, bound = None, None, None
    if d == 1:
        want, sigma = float(X.max() - X.min()), 0.0
        _close(c, w0, want, 1e-12 * (want + mag), "1-D: mean width equals max - min", "width-value-1d")
        bound = 0.0
    elif cls in ("zonotope", "segment"):
        want, sigma = zonotope_width_moments(np.asarray(G, dtype=float), d)
        bound = mc_bound(n, sigma, D)
        if affine_rank(X)[0] < d:
            c.cell("mw:flat")
    elif cls == "polygon":
        V = hull2d(X)
        want, sigma, _ = polygon_width_moments(V)
        bound = mc_bound(n, sigma, D)
    else:
        sigma = D / 2.0
        bound = mc_bound(n, sigma, D)
    slack = 1e-12 * (D + mag)
    if want is not None and d > 1:
        c.margin("mean width vs analytic value (Monte-Carlo bound)", abs(w0 - want), bound + slack)
        c.require(abs(w0 - want) <= bound + slack,
                  "mean width equals the analytic mean width of the convex hull within the Monte-Carlo bound",
                  mechanism="width-value", got=w0, want=want, bound=bound, sigma_per_direction=sigma, n=n, d=d, cls=cls)
    c.require(w0 <= D * (1 + 1e-12) + slack, "mean width does not exceed the diameter", mechanism="width-gt-diameter",
              got=w0, diameter=D)
    # ---- exact relations with the same seed
    tolx = TOL_MW * (w0 + mag)
    wv = W(X, vectorized=not vec)
    _close(c, wv, w0, tolx, "vectorized=True and vectorized=False give the same value", "width-vectorized")
    t = inp["t"]
    for cen in (center, not center):
        wa = w0 if cen == center else W(X, center=cen)
        wt = W(X + t, center=cen)
        _close(c, wt, wa, TOL_MW * (wa + mag + float(np.max(np.abs(t)))),
               "mean width is invariant to translation (same seed; center=%s)" % cen, "width-translation:center=%s" % cen,
               center=cen)
        wy = W(np.vstack([X, Y]), center=cen)
        tm = TOL_MW * (wa + float(np.max(np.abs(np.vstack([X, Y])))))
        c.margin("mean width monotone (decrease)", max(wa - wy, 0.0), max(tm, 1e-300))
        c.require(wy >= wa - tm, "mean width is non-decreasing when points are added (same seed)",
                  mechanism="width-monotone", before=wa, after=wy, center=cen)
    s = float(inp["s"])
    ws = W(X * s)
    _close(c, ws, s * w0, TOL_MW * s * (w0 + mag), "mean width is homogeneous: w(sX) = s w(X) (same seed)",
           "width-homogeneity", s=s)
    # ---- rotation: two independent-looking estimates of the same quantity
    wq = W(X @ inp["Q"].T)
    rb = (2.0 * bound if d > 1 else 0.0) + 1e-12 * (D + mag)
    c.margin("mean width under rotation (Monte-Carlo bound)", abs(wq - w0), rb)
    c.require(abs(wq - w0) <= rb, "mean width is invariant to rotation within the Monte-Carlo bound",
              mechanism="width-rotation", got=wq, unrotated=w0, bound=rb)
    # other seed: different estimate of the same quantity, again within the bound
    w2 = W(X, seed=seed + 1)
    c.require(abs(w2 - w0) <= rb, "estimates from two seeds agree within the Monte-Carlo bound",
              mechanism="width-seed-spread", a=w0, b=w2, bound=rb)
    if d > 1 and D > 0 and len(X) >= 2:
        c.cell("mw:seed-changes-estimate" if w2 != w0 else "mw:seed-no-effect")
    c.nontrivial(d >= 2 and len(X) >= 3)
    c.note("mean_width", {"observed": w0, "oracle": want, "mc_bound": bound, "sigma_per_direction": sigma,
                          "rotated": wq, "other_seed": w2, "n": n, "d": d, "diameter": D})


M.add("mean_width", gen_mean_width, chk_mean_width, weight=3, min_held=150)


# ================================================================== clause 3: compute_gamut

def _nonneg_rows(rng, N, m):
    kind = int(rng.integers(3))
    if kind == 0:
        X = rng.dirichlet(np.ones(m) * float(rng.choice([0.5, 1.0, 4.0])), N)
    elif kind == 1:
        X = rng.uniform(0, 1, (N, m))
    else:
        X = rng.uniform(0, 1, (N, m)) * (rng.random((N, m)) < 0.7)
        X[np.arange(N), rng.integers(m, size=N)] += rng.uniform(0.05, 1, N)
    return X * np.exp(rng.uniform(-1, 1, (N, 1)))


def gen_gamut(rng, i):
    m = 2 + i % 5
    cls = GAMUT_CLASSES[(i // 5) % len(GAMUT_CLASSES)]
    Bn = None
    rank_sub = m - 1
    if cls in ("generic", "generic-zeros"):
        N = int(rng.integers(m + 1, 25))
        X = _nonneg_rows(rng, N, m)
    elif cls == "mixtures":
        # m corner chromaticities and non-negative mixtures of them: closed-form chromatic volume
        for _ in range(50):
            V = _nonneg_rows(rng, m, m)
            Bn = V / V.sum(axis=1, keepdims=True)
            if abs(np.linalg.det(Bn)) > 1e-3 and aspect_ratio(Bn) <= MAX_ASPECT:
                break
        mix = rng.gamma(1.0, 1.0, (int(rng.integers(0, 12)), m)) @ V
        X = np.vstack([V, mix])
    elif cls == "flat":
        r = int(rng.integers(1, m - 1)) if m > 2 else 0     # chromatic rank r < m-1  (m=2: a single chromaticity)
        rank_sub = r
        for _ in range(50):
            V = _nonneg_rows(rng, r + 1, m)
            N = int(rng.integers(r + 2, 16))
            X = np.vstack([V, rng.gamma(1.0, 1.0, (N, r + 1)) @ V])
            if r == 0 or aspect_ratio(X / X.sum(axis=1, keepdims=True)) <= MAX_ASPECT:
                break
    else:  # single chromaticity
        rank_sub = 0
        v = _nonneg_rows(rng, 1, m)
        X = v * np.exp(rng.uniform(-2, 2, (int(rng.integers(1, 6)), 1)))
    X = X[rng.permutation(len(X))]
    E = _nonneg_rows(rng, int(rng.integers(m + 1, 12)), m)       # generic extra points: the superset is full rank
    if cls == "flat" and rng.integers(3) == 0 and rank_sub >= 1:
        # superset of the same (lower) rank: more mixtures of the same corner chromaticities
        E = rng.gamma(1.0, 1.0, (int(rng.integers(2, 8)), rank_sub + 1)) @ V
    l1 = X.sum(axis=1)
    lo, hi = float(l1.min()), float(l1.max())
    a_in = None
    if hi > lo * (1 + 1e-6):
        for _ in range(20):
            a = float(rng.uniform(lo, hi))
            if np.min(np.abs(l1 - a)) > 1e-3 * (hi - lo):
                a_in = a
                break
    return {"m": m, "cls": cls, "X": X, "E": E, "Bn": Bn,
            "rowscale": np.exp(rng.uniform(np.log(1e-3), np.log(1e3), len(X))),
            "seed": int(rng.integers(0, 2 ** 32)) if rng.integers(3) else int(rng.integers(0, 3)),
            "center": bool(rng.integers(2)), "ctn": bool(rng.integers(3) == 0),
            "n_zero": int(rng.integers(1, 4)), "a_in": a_in,
            "a_out": float(hi * rng.uniform(1.0, 3.0)) if rng.integers(2) else float(lo * rng.uniform(0.1, 0.99)),
            "do_slice": bool((i // (5 * len(GAMUT_CLASSES))) % 2 == 0)}


def _slice_points(X, a):
    """All intersections of segments (x_i below or on, x_j above the plane sum = a) with the plane: their convex hull
    is the slice of conv(X)."""
    l1 = X.sum(axis=1)
    lo, hi = X[l1 <= a], X[l1 > a]
    llo, lhi = l1[l1 <= a], l1[l1 > a]
    t = (a - llo)[:, None] / (lhi[None, :] - llo[:, None])
    P = lo[:, None, :] + t[:, :, None] * (hi[None, :, :] - lo[:, None, :])
    return P.reshape(-1, X.shape[1])


def _chromatic_volume_oracle(X):
    """own (m-1)-volume of the chromatic hull for m in {2, 3}; None otherwise."""
    m = X.shape[1]
    Yc, _ = simplex_coords(X)
    if m == 2:
        return float(Yc.max() - Yc.min())
    if m == 3:
        return shoelace(hull2d(Yc))
    return None


def chk_gamut(inp, c):
    X, E, m, cls = inp["X"], inp["E"], int(inp["m"]), inp["cls"]
    seed, center, ctn = int(inp["seed"]), bool(inp["center"]), bool(inp["ctn"])
    c.cell("gamut:m=%d" % m, "gamut:class=" + cls, "gamut:center=%s" % center, "gamut:center_to_neutral=%s" % ctn)
    if not (np.all(X >= 0) and np.all(X.sum(axis=1) > 0) and np.all(E >= 0) and np.all(E.sum(axis=1) > 0)):
        c.unmet("non-negative captures with positive totals")
    Yc, bX = simplex_coords(X)
    rX, _ = affine_rank(bX)
    if 1 <= rX < m - 1 and aspect_ratio(bX) > MAX_ASPECT:
        c.unmet("chromatically flat cloud with aspect ratio > 30:1")
    S = np.vstack([X, E])
    rS, _ = affine_rank(simplex_coords(S)[1])
    t = inp["rowscale"]
    h, nz = len(X) // 2, int(inp["n_zero"])
    Xz = np.vstack([X[:h], np.zeros((nz, m)), X[h:]])
    tz = np.concatenate([t[:h], np.ones(nz), t[h:]])
    Xin, tin = (Xz, tz) if cls == "generic-zeros" else (X.copy(), t)
    nontriv = False
    notes = {}
    for metric in ("width", "volume"):
        c.cell("gamut:metric=" + metric)
        kw = {"metric": metric, "seed": seed, "center": center, "center_to_neutral": ctn}

        def Gm(A, **over):
            k2 = dict(kw)
            k2.update(over)
            return _scalar(c, c.call(Mx.compute_gamut, np.array(A, copy=True), _where="compute_gamut", **k2),
                           "compute_gamut", "gamut-result-type")

        flat = rX < m - 1
        tol = TOL_VOL_FLAT if (flat and metric == "volume") else TOL_GAMUT
        fb = _Flat(c, bool(1 <= rX < m - 1 and metric == "volume"), "gamut:flat:indeterminate-band")
        g0 = Gm(Xin)
        c.require(g0 >= 0, "gamut is non-negative", mechanism="gamut-negative", got=g0, metric=metric)
        g0b = Gm(Xin)
        c.require(g0 == g0b, "gamut is deterministic per seed", mechanism="gamut-not-deterministic:" + metric,
                  first=g0, second=g0b)
        # ---- the gamut is the metric of the chromatic coordinates (twin run through the public functions)
        Yd = c.call(Bx.barycentric_dim_reduction, X.copy(), center=ctn, _where="barycentric_dim_reduction")
        if metric == "width":
            direct = _scalar(c, c.call(Mx.compute_mean_width, Yd, seed=seed, center=center), "compute_mean_width",
                             "width-result-type")
        else:
            direct = _scalar(c, c.call(Mx.compute_volume, Yd), "compute_volume", "volume-result-type")
        _close(c, g0, direct, tol * max(direct, 1e-300) + 1e-15, "gamut equals the %s of the chromatic coordinates" % metric,
               "gamut-vs-direct:" + metric)
        # ---- value
        if metric == "volume":
            want = None
            if rX == 0:
                want = 0.0
            elif cls == "mixtures" and inp["Bn"] is not None:
                want = abs(float(np.linalg.det(inp["Bn"]))) * unit_simplex_volume(m)
                c.cell("gamut:oracle=closed-form")
            elif m <= 3 and not flat:
                want = _chromatic_volume_oracle(X)
                c.cell("gamut:oracle=shoelace" if m == 3 else "gamut:oracle=max-min")
            if want is not None:
                _close(c, g0, want, tol * want + (1e-12 if want == 0 else 0.0),
                       "chromatic volume equals the volume of the hull of the chromaticities on the unit-edge simplex",
                       "gamut-volume-value", m=m, cls=cls)
                notes["volume_oracle"] = want
        elif m == 2:
            want = _chromatic_volume_oracle(X)
            _close(c, g0, want, 1e-12 * (want + 1.0), "dichromat: chromatic width equals the chromatic interval length",
                   "gamut-width-value-1d")
        elif m == 3:
            V = hull2d(Yc)
            want, sigma, Dp = polygon_width_moments(V)
            b = mc_bound(1000, sigma, Dp) + 1e-12
            c.margin("chromatic width vs perimeter/pi (Monte-Carlo bound)", abs(g0 - want), b)
            c.require(abs(g0 - want) <= b, "trichromat: chromatic mean width equals perimeter/pi within the Monte-Carlo bound",
                      mechanism="gamut-width-value", got=g0, want=want, bound=b)
            notes["width_oracle"] = want
        # ---- invariant to the intensity scale (per-row positive factors)
        g1 = Gm(Xin * tin[:, None])
        fb.close(g1, g0, tol * g0 + 1e-15, "gamut is invariant to the intensity scale of its input (per-row positive factors)",
                 "gamut-scale:" + metric, metric=metric)
        g1b = Gm(Xin * float(t[0]))
        fb.close(g1b, g0, tol * g0 + 1e-15, "gamut is invariant to the intensity scale of its input (global factor)",
                 "gamut-scale:" + metric, metric=metric)
        # ---- rows with zero total carry no chromaticity
        gz = Gm(Xz)
        fb.close(gz, Gm(X), tol * g0 + 1e-15, "rows with zero total intensity do not change the gamut", "gamut-zero-rows:" + metric)
        # ---- relative to itself
        if rX >= 1 and g0 > 0:
            gs = Gm(Xin, relative_to=Xin.copy())
            _close(c, gs, 1.0, TOL_SELF, "gamut relative to itself equals 1", "gamut-self:" + metric, metric=metric)
            gs2 = Gm(Xin * t[0], relative_to=X[::-1].copy())
            fb.close(gs2, 1.0, tol, "gamut relative to a rescaled / reordered copy of itself equals 1",
                     "gamut-self-rescaled:" + metric, metric=metric)
            nontriv = nontriv or m >= 3
        # ---- relative to a superset
        gsup = Gm(Xin, relative_to=S.copy())
        lower = rX < rS
        if metric == "volume":
            c.cell("gamut:superset:lower-rank" if lower else "gamut:superset:equal-rank")
        mech = "gamut-superset:" + metric
        if metric == "volume" and lower:
            mech = "gamut-volume-ratio-gt1:lower-rank-subset"
        if not (not lower and fb.band(1.0, gsup, "superset of the same (lower) rank")):
            c.margin("gamut relative to a superset (excess over 1)" + (" [lower rank]" if (lower and metric == "volume") else ""),
                     max(gsup - 1.0, 0.0), TOL_GAMUT)
            c.require(gsup <= 1.0 + TOL_GAMUT, "gamut never exceeds 1 relative to a superset", mechanism=mech,
                      got=gsup, metric=metric, chromatic_rank_subset=rX, chromatic_rank_superset=rS, m=m)
        c.require(gsup >= 0.0, "gamut is non-negative", mechanism="gamut-negative", got=gsup, metric=metric)
        notes[metric] = {"absolute": g0, "rescaled_rows": g1, "vs_superset": gsup, "chromatic_rank": rX,
                         "superset_rank": rS}
        if fb.flat and not fb.hits:
            c.cell("gamut:flat:volume-decided")
        fb.finish()
        # ---- slice at a given total
        if inp["do_slice"] and cls in ("generic", "mixtures"):
            a_out = float(inp["a_out"])
            go = Gm(X, at_l1=a_out)
            c.cell("gamut:at_l1:one-sided")
            c.require(go == 0, "no point on one side of the requested total: the slice is empty and its gamut 0",
                      mechanism="gamut-slice-one-sided", got=go, at_l1=a_out)
            # only the zero capture below the total: the slice of conv({0} u X) has the chromaticities of all of X
            a_lo = 0.5 * float(X.sum(axis=1).min())
            gzl = Gm(Xz, at_l1=a_lo, relative_to=X.copy())
            c.cell("gamut:at_l1:from-origin")
            _close(c, gzl, 1.0, tol, "with only zero captures below the requested total the slice has the chromaticities of "
                   "the whole cloud (gamut 1 relative to it)", "gamut-slice-from-origin:" + metric, at_l1=a_lo)
            a = inp["a_in"]
            if a is not None:
                a = float(a)
                c.cell("gamut:at_l1:slice")
                ga = Gm(X, at_l1=a, relative_to=X.copy())
                if metric == "width":
                    c.require(-1e-12 <= ga <= 1.0 + TOL_GAMUT,
                              "the slice of the hull at a given total is a subset of the hull: gamut <= 1 relative to the cloud",
                              mechanism="gamut-slice-gt-whole", got=ga, at_l1=a)
                if metric == "volume":
                    P = _slice_points(X, a)
                    rP, _ = affine_rank(simplex_coords(P)[1])
                    if rP < rX:
                        # the slice is chromatically flatter than the cloud (e.g. a triangle cut to a segment): the
                        # subset statement applies; its mechanism is the lower-rank one
                        c.cell("gamut:at_l1:lower-rank-slice")
                        c.require(ga <= 1.0 + TOL_GAMUT, "gamut never exceeds 1 relative to a superset",
                                  mechanism="gamut-volume-ratio-gt1:lower-rank-subset", got=ga, metric=metric, at_l1=a,
                                  chromatic_rank_subset=rP, chromatic_rank_superset=rX, m=m, slice_of_the_cloud=True)
                    else:
                        c.require(-1e-12 <= ga <= 1.0 + TOL_GAMUT,
                                  "the slice of the hull at a given total is a subset of the hull: gamut <= 1 relative to the cloud",
                                  mechanism="gamut-slice-gt-whole", got=ga, at_l1=a, metric=metric)
                        if m <= 3:
                            want = _chromatic_volume_oracle(P) / max(_chromatic_volume_oracle(X), 1e-300)
                            _close(c, ga, want, 1e-7 * max(want, 1e-3),
                                   "gamut at a given total equals the chromatic volume of the slice of the hull at that total",
                                   "gamut-slice-value", at_l1=a, m=m)
                            notes["slice"] = {"observed": ga, "oracle": want, "at_l1": a}
    c.nontrivial(nontriv)
    c.note("gamut", notes)


M.add("gamut", gen_gamut, chk_gamut, weight=3, min_held=150)


# ================================================================== clause 4: estimator fraction in absolute capture

def gen_estimator(rng, i):
    kind = "system" if i % 2 == 0 else "spectra"
    m = int(rng.integers(2, 6))
    n = int(rng.integers(1, 7))
    if kind == "system":
        s = gen.make_system(rng, m=m, n=n, ubkind="finite")
        s.update({"filters": None, "sources": None, "domain": None, "dkind": "scalar"})
    else:
        dkind, dom = gen.make_domain(rng)
        nd = int(rng.integers(20, 60)) if np.ndim(dom) == 0 else len(dom)
        filters, sources = gen.make_spectra(rng, m, n, dom, nd)
        lbkind = "zero" if rng.integers(3) else "pos"
        lb, ub, lbv, ubv = gen.make_bounds(rng, n, lbkind, "finite")
        kk = gen.K_KINDS[rng.integers(4)]
        bk = gen.BASE_KINDS[rng.integers(3)]
        s = {"A": None, "lb": lb, "ub": ub, "K": gen.make_K(rng, m, kk), "baseline": gen.make_baseline(rng, m, bk, 1.0),
             "kkind": kk, "basekind": bk, "lbkind": lbkind, "ubkind": "finite",
             "filters": filters, "sources": sources, "domain": dom, "dkind": dkind}
    s.update({"kind": kind, "seed": int(rng.integers(0, 2 ** 32)) if rng.integers(3) else int(rng.integers(0, 3)),
              "l1frac": float(rng.uniform(0.15, 0.85))})
    return s


def chk_estimator(inp, c):
    kind = inp["kind"]
    seed = int(inp["seed"])
    if kind == "system":
        A = np.atleast_2d(inp["A"])
        m, n = A.shape
        filters, sources = gen.spectra_for_A(A)
        dom = 1.0
        est = c.call(gen.make_estimator, dreye, inp, _where="ReceptorEstimator+register_system")
    else:
        filters, sources, dom = inp["filters"], inp["sources"], inp["domain"]
        m, n = filters.shape[0], sources.shape[0]
        dom = float(dom) if np.ndim(dom) == 0 else np.asarray(dom, dtype=float)
        kw = {}
        if inp["K"] is not None:
            kw["K"] = inp["K"]
        if inp["baseline"] is not None:
            kw["baseline"] = inp["baseline"]
        est = c.call(dreye.ReceptorEstimator, filters.copy(), domain=dom if np.ndim(dom) == 0 else dom.copy(),
                     sources=sources.copy(), lb=inp["lb"], ub=inp["ub"], _where="ReceptorEstimator(sources=)", **kw)
    nd = filters.shape[1]
    w = oracles.domain_weights(dom, nd, True)
    Aor, _ = oracles.capture_oracle(filters, sources, w)            # (n, m)
    lbv, ubv = oracles.bounds_arrays(inp["lb"], inp["ub"], n)
    corners = np.array([[ubv[j] if (q >> j) & 1 else lbv[j] for j in range(n)] for q in range(2 ** n)])
    P = corners @ Aor                                               # absolute captures of all bound combinations
    ref = filters.T * w[:, None]                                    # absolute captures of single wavelengths
    P = P[P.sum(axis=1) > 0]
    ref = ref[ref.sum(axis=1) > 0]
    c.cell("est:kind=" + kind, "est:m=%d" % m, "est:n=%d" % n, "est:lb=" + inp["lbkind"], "est:K=" + inp["kkind"],
           "est:baseline=" + inp["basekind"], "est:domain=" + inp["dkind"])
    if not (np.all(P >= 0) and np.all(ref >= 0) and len(P) and len(ref)):
        c.unmet("non-negative spectra")
    rP, _ = affine_rank(simplex_coords(P)[1])
    rR, _ = affine_rank(simplex_coords(ref)[1])
    c.cell("est:chromatic-rank=full" if rP == m - 1 else "est:chromatic-rank=lower")
    degenerate = rP == 0
    if degenerate:
        c.cell("est:single-chromaticity")
    notes = {"chromatic_rank_system": rP, "chromatic_rank_reference": rR, "n_corner_captures": len(P),
             "n_reference_points": len(ref)}
    # the answers below must not depend on what was asked before: ask the relative-capture gamut first (twice), on the
    # same estimator, then judge the absolute-capture answers
    if inp.get("ask_relative_first", seed % 2 == 0):
        c.cell("est:asked-relative-first")
        c.try_call(est.compute_gamut, relative=True, seed=seed)
        c.try_call(est.compute_gamut, relative=True, metric="volume")
    for metric in ("width", "volume"):
        c.cell("est:metric=" + metric)
        g = _scalar(c, c.call(est.compute_gamut, relative=False, metric=metric, seed=seed,
                              _where="ReceptorEstimator.compute_gamut"), "ReceptorEstimator.compute_gamut",
                    "estimator-gamut-result-type")
        lower = rP < rR
        mech_hi = "estimator-fraction-gt1:" + metric
        if metric == "volume" and lower:
            mech_hi = "gamut-volume-ratio-gt1:lower-rank-subset"
        c.margin("estimator fraction (excess over 1)" + (" [lower rank]" if (lower and metric == "volume") else ""),
                 max(g - 1.0, 0.0), TOL_GAMUT)
        c.require(g <= 1.0 + TOL_GAMUT, "the estimator's fractional gamut in absolute capture is at most 1",
                  mechanism=mech_hi, got=g, metric=metric, chromatic_rank_system=rP, chromatic_rank_reference=rR,
                  m=m, n=n)
        if degenerate:
            c.require(abs(g) <= 1e-9, "a system with a single chromaticity has an empty chromatic gamut (0)",
                      mechanism="estimator-fraction-degenerate", got=g, metric=metric)
        else:
            c.require(g > 0.0, "the estimator's fractional gamut in absolute capture is positive",
                      mechanism="estimator-fraction-not-positive:" + metric, got=g, metric=metric, n=n, m=m)
        # twin run: the fraction is the gamut of the absolute corner captures relative to the absolute
        # single-wavelength captures (own captures, public compute_gamut)
        tol = TOL_VOL_FLAT if (metric == "volume" and rP < m - 1) else TOL_GAMUT
        twin = _scalar(c, c.call(Mx.compute_gamut, P.copy(), relative_to=ref.copy(), metric=metric, seed=seed,
                                 _where="compute_gamut"), "compute_gamut", "gamut-result-type")
        fb = _Flat(c, bool(metric == "volume" and 1 <= rP < m - 1), "est:flat:indeterminate-band")
        fb.close(g, twin, tol * max(twin, 1e-300) + 1e-12,
               "the fraction equals gamut(absolute corner captures) / gamut(absolute single-wavelength captures)",
               "estimator-fraction-vs-absolute-captures:" + metric, metric=metric)
        ga = _scalar(c, c.call(est.compute_gamut, fraction=False, relative=False, metric=metric, seed=seed,
                               _where="ReceptorEstimator.compute_gamut"), "ReceptorEstimator.compute_gamut",
                     "estimator-gamut-result-type")
        twin_a = _scalar(c, c.call(Mx.compute_gamut, P.copy(), metric=metric, seed=seed, _where="compute_gamut"),
                         "compute_gamut", "gamut-result-type")
        fb.close(ga, twin_a, tol * max(twin_a, 1e-300) + 1e-12,
               "fraction=False returns the gamut of the absolute corner captures",
               "estimator-absolute-gamut:" + metric, metric=metric)
        notes[metric] = {"fraction": g, "twin": twin, "absolute": ga}
        fb.finish()
        if metric == "width" and not degenerate:
            # slice at a total inside the range of the corner totals: still a subset of the reference
            l1 = P.sum(axis=1)
            a = float(l1.min() + inp["l1frac"] * (l1.max() - l1.min()))
            if l1.max() > l1.min() * (1 + 1e-6) and np.min(np.abs(l1 - a)) > 1e-6 * l1.max():
                gl = _scalar(c, c.call(est.compute_gamut, relative=False, metric="width", seed=seed, at_l1=a,
                                       _where="ReceptorEstimator.compute_gamut(at_l1)"),
                             "ReceptorEstimator.compute_gamut", "estimator-gamut-result-type")
                c.cell("est:at_l1")
                c.require(-1e-12 <= gl <= 1.0 + TOL_GAMUT, "the fractional gamut at a given total capture lies in [0, 1]",
                          mechanism="estimator-fraction-at-l1", got=gl, at_l1=a)
                notes["at_l1"] = {"total": a, "fraction": gl}
    c.nontrivial(n >= 2)
    c.note("estimator_gamut", notes)


M.add("estimator_fraction", gen_estimator, chk_estimator, weight=2, min_held=100)


# ================================================================== clause 5: Jensen-Shannon divergence

def _kl_bits(a, b):
    mask = a > 0
    return float(np.sum(a[mask] * (np.log2(a[mask]) - np.log2(b[mask]))))


def jsd_bits(P, Q):
    p = np.asarray(P, dtype=float).ravel()
    q = np.asarray(Q, dtype=float).ravel()
    p, q = p / p.sum(), q / q.sum()
    mid = 0.5 * (p + q)
    return 0.5 * _kl_bits(p, mid) + 0.5 * _kl_bits(q, mid), p, q


def gen_jsd(rng, i):
    cls = JSD_CLASSES[i % len(JSD_CLASSES)]
    L = int(rng.integers(2, 41))
    base = [lambda: rng.uniform(0, 1, L), lambda: rng.dirichlet(np.ones(L) * 0.3), lambda: 10.0 ** rng.uniform(-8, 2, L),
            lambda: rng.gamma(0.5, 1.0, L) + 1e-9][int(rng.integers(4))]
    P, Q = base(), base()
    if cls == "zeros-one":
        P = P * (rng.random(L) < 0.5)
        P[int(rng.integers(L))] = rng.uniform(0.1, 1)
    elif cls == "zeros-both":
        P = P * (rng.random(L) < 0.6)
        Q = Q * (rng.random(L) < 0.6)
        P[int(rng.integers(L))] = rng.uniform(0.1, 1)
        Q[int(rng.integers(L))] = rng.uniform(0.1, 1)
    elif cls == "equal":
        Q = P.copy()
    elif cls == "proportional":
        Q = P * float(10.0 ** rng.uniform(-6, 6))
    elif cls == "disjoint":
        mask = rng.random(L) < 0.5
        mask[0], mask[1] = True, False
        P, Q = np.where(mask, P + 1e-6, 0.0), np.where(mask, 0.0, Q + 1e-6)
    elif cls == "matrix":
        r = int(rng.integers(2, 5))
        P, Q = rng.uniform(0, 1, (r, L)), rng.uniform(0, 1, (r, L))
    elif cls == "large":
        P, Q = P * 10.0 ** rng.uniform(20, 100), Q * 10.0 ** rng.uniform(-100, 100)
    elif cls == "close":
        j = int(rng.integers(L))
        Q = P.copy() + 1e-12
        Q[j] += float(10.0 ** rng.uniform(-3, -1)) * 4 * P.sum()
    elif cls == "single-entry":
        P, Q = np.array([rng.uniform(0.1, 5)]), np.array([rng.uniform(0.1, 5)])
    elif cls == "counts":
        P, Q = rng.integers(0, 6, L).astype(float), rng.integers(0, 6, L).astype(float)
        P[int(rng.integers(L))] += 1
        Q[int(rng.integers(L))] += 1
        if rng.integers(2):
            P, Q = P.astype(np.int64), Q.astype(np.int64)
    return {"cls": cls, "P": P, "Q": Q, "a": float(10.0 ** rng.uniform(-6, 6)), "b": float(10.0 ** rng.uniform(-6, 6)),
            "as_list": bool(rng.integers(5) == 0)}


def chk_jsd(inp, c):
    P, Q, cls = inp["P"], inp["Q"], inp["cls"]
    c.cell("jsd:class=" + cls, "jsd:ndim=%d" % np.ndim(P))
    Pf, Qf = np.asarray(P, dtype=float), np.asarray(Q, dtype=float)
    if not (np.all(Pf >= 0) and np.all(Qf >= 0) and Pf.sum() > 0 and Qf.sum() > 0 and np.all(np.isfinite(Pf))
            and np.all(np.isfinite(Qf))):
        c.unmet("non-negative vectors with a positive entry")
    conv = (lambda A: np.asarray(A).tolist()) if inp["as_list"] else (lambda A: np.array(A, copy=True))
    if inp["as_list"]:
        c.cell("jsd:input=list")

    def J(A, B):
        return _scalar(c, c.call(Mx.compute_jensen_shannon_divergence, conv(A), conv(B),
                                 _where="compute_jensen_shannon_divergence"), "compute_jensen_shannon_divergence",
                       "jsd-result-type")

    got = J(P, Q)
    want, p, q = jsd_bits(Pf, Qf)
    _close(c, got, want, TOL_JSD, "divergence equals 1/2 KL(p||m) + 1/2 KL(q||m) in bits", "jsd-value", cls=cls)
    rev = J(Q, P)
    _close(c, rev, got, 1e-15, "divergence is symmetric", "jsd-symmetric")
    a, b = float(inp["a"]), float(inp["b"])
    if Pf.max() * a < 1e150 and Qf.max() * b < 1e150:
        ga, gb, gab = J(Pf * a, Qf), J(Pf, Qf * b), J(Pf * a, Qf * b)
        for nm, gv in (("first", ga), ("second", gb), ("both", gab)):
            _close(c, gv, got, TOL_JSD, "divergence is invariant to the normalisation (positive scaling) of its inputs",
                   "jsd-scale:" + nm, which=nm)
    c.require(-TOL_JSD <= got <= 1.0 + TOL_JSD, "divergence lies in [0, 1] bit", mechanism="jsd-range", got=got)
    l1 = float(np.sum(np.abs(p - q)))
    linf = float(np.max(np.abs(p - q)))
    if cls in ("equal", "proportional", "single-entry"):
        c.require(abs(got) <= TOL_JSD, "divergence is zero for proportional inputs", mechanism="jsd-proportional-nonzero",
                  got=got)
    if linf >= 1e-3:
        lower = l1 * l1 / (8.0 * math.log(2.0))
        c.require(got > 0.0 and got >= lower * (1 - 1e-9) - TOL_JSD,
                  "divergence is positive for non-proportional inputs (at least |p-q|_1^2 / (8 ln 2) bits)",
                  mechanism="jsd-zero-for-different", got=got, pinsker_lower_bound=lower)
        c.cell("jsd:different>=1e-3")
    if cls == "disjoint":
        _close(c, got, 1.0, TOL_JSD, "disjoint supports: divergence is exactly 1 bit", "jsd-disjoint")
    sim = _scalar(c, c.call(Mx.compute_jensen_shannon_similarity, conv(P), conv(Q),
                            _where="compute_jensen_shannon_similarity"), "compute_jensen_shannon_similarity",
                  "jsd-result-type")
    _close(c, sim, 1.0 - got, 1e-15, "similarity equals 1 - divergence", "jsd-similarity")
    c.nontrivial(Pf.size >= 2 and linf > 0)
    c.note("jsd", {"observed": got, "oracle": want, "reversed": rev, "similarity": sim, "|p-q|_1": l1})


M.add("jensen_shannon", gen_jsd, chk_jsd, weight=2, min_held=100)


# ================================================================== clause 6: volume in the extreme regimes

def gen_extreme(rng, i):
    cls = EXTREME_CLASSES[i % len(EXTREME_CLASSES)]
    d = int(rng.integers(2, 6))
    if cls == "thin-flat":
        d = max(d, 3)
        k = 2 if rng.integers(2) else int(rng.integers(2, d))
        asp = float(10.0 ** rng.uniform(np.log10(400.0), 4.0))
        s = np.ones(k)
        s[0] = asp
        s = s * float(np.exp(rng.uniform(-1, 1)))
        C, bvol = _base_shape(rng, "box", k)
        inner = rng.uniform(0.1, 0.9, (int(rng.integers(1, 8)), k))
        pts = np.vstack([C, inner]) * s
        want = float(np.prod(s))
        X = pts @ _frame(rng, d, k).T + rng.normal(0, 1, d)
        ratio = asp
    else:
        k = d
        Mk = _lin_map(rng, k, 3.0)
        C, bvol = _base_shape(rng, ["box", "simplex", "cross"][int(rng.integers(3))], k)
        inner = rng.dirichlet(np.ones(len(C)), int(rng.integers(0, 6))) @ C
        pts = np.vstack([C, inner]) @ Mk.T
        want = bvol * abs(float(np.linalg.det(Mk)))
        ext = float(np.max(pts.max(0) - pts.min(0)))
        if cls == "far-offset":
            ratio = float(10.0 ** rng.uniform(5.3, 7.0))
            X = pts + np.sign(rng.normal(size=d)) * ext * ratio * rng.uniform(0.5, 1.0, d)
        else:
            ratio = float(10.0 ** rng.uniform(-12, -9)) / ext
            X = pts * ratio
            want = want * ratio ** k
    return {"cls": cls, "d": d, "k": k, "X": X, "want": want, "ratio": ratio}


def chk_extreme(inp, c):
    cls, X, want, d, k = inp["cls"], inp["X"], float(inp["want"]), int(inp["d"]), int(inp["k"])
    c.cell("extreme:" + cls, "extreme:d=%d" % d)
    v = _volume_of(c, X)
    if cls == "thin-flat":
        ok = abs(v - want) <= 1e-6 * want
        c.margin("thin flat cloud: volume", abs(v - want), 1e-6 * want)
        c.require(ok, "volume of a flat cloud with aspect ratio > 316:1 equals the k-volume within its affine span",
                  mechanism="volume-rank-underestimated:thin-flat-cloud", got=v, want=want, aspect=inp["ratio"], d=d, k=k)
    else:
        rel = 1e-6 if cls == "far-offset" else 1e-9
        mech = "volume-zero:allclose-early-return" if v == 0.0 else "volume-extreme-value:" + cls
        c.require(abs(v - want) <= rel * want,
                  "volume of a cloud %s equals its analytic volume" %
                  ("offset by >= 1e5 times its extent" if cls == "far-offset" else "of extent <= 1e-9"),
                  mechanism=mech, got=v, want=want, ratio=inp["ratio"], d=d)
    c.nontrivial(True)
    c.note("extreme", {"observed": v, "oracle": want, "class": cls, "ratio": inp["ratio"]})


M.add("volume_extreme", gen_extreme, chk_extreme, weight=1, min_held=10)
