"""C17 — hull projections return the nearest point, the boundary hit and the exact slice.

Contracts on the return values of dreye.proj_B_to_hull / alpha_for_B_with_P / B_with_P /
proj_P_to_simplex.  Oracles (numpy / scipy only, no dreye, no cvxpy):

* nearest point   : feasibility for the *given* facet equations + the variational inequality
                    (b - q).(v - q) <= 0 for every hull vertex v (necessary and sufficient for
                    q = argmin |x - b| over conv(vertices)) + idempotence.
* boundary hit    : alpha > 0 and max_facets(n.(alpha b) + off) == 0; cross-checked with a
                    HiGHS gauge LP over the V-representation (max t : t b in conv(vertices)).
* exact slice     : support function of the returned points == support function of
                    conv(P) cut by {sum x = c} from a HiGHS LP over the convex-combination weights,
                    cross-checked by the closed form "all below/above pairs cut by the plane".

qhull (scipy.spatial.ConvexHull) is used only to build the *input* facet equations.

The quadratic programme behind proj_B_to_hull can cycle for ever (see HANG_WITNESS); every
batch is therefore first run in a forked child with a time limit, and only then in-process.
"""
import os
import select
import signal
import warnings

import numpy as np
from scipy.optimize import linprog
from scipy.spatial import ConvexHull

try:
    from scipy.spatial import QhullError
except ImportError:  # pragma: no cover
    from scipy.spatial.qhull import QhullError

from harness import runtime
from harness.core import Monitor

dreye = None


def _setup():
    global dreye
    dreye = runtime.load_dreye()


# ------------------------------------------------------------------ tolerances (measured head-room in comments)
TOL_FEAS = 1e-8        # facet inequalities of the projection, x scale          (seen 5e-16)
TOL_SAME = 1e-9        # inside points unchanged / idempotence, x scale         (seen 0 / 4e-13)
TOL_VI = 1e-7          # variational inequality, x scale^2                      (seen 2e-11 at thickness 1e-4)
TOL_BND = 1e-9         # boundary residual of alpha*b, x extent                 (seen 3e-16)
TOL_GAUGE = 1e-7       # alpha vs gauge LP, relative                            (seen 3e-10)
TOL_SUM = 1e-9         # coordinate sum of slice points, x c                    (seen 5e-16)
TOL_SUPPORT = 1e-7     # support functions, x scale                             (seen 3e-13)
TOL_ORACLES = 1e-8     # LP oracle vs closed-form oracle, x scale               (seen 1e-10)
TOL_MEMBER = 1e-7      # returned slice point in conv(P), x scale               (seen 1e-11)
THIN_MIN = -4.0        # log10 of the smallest relative hull thickness generated for proj_B_to_hull
T_BATCH, T_ROW = 3.0, 4.0      # termination guard (a batch normally takes ~2 ms)
HOSTILE_THIN_FLAT = True       # generate coplanar strips with aspect ratio up to 3000:1 (slice clause)
LP_OPTS = {"primal_feasibility_tolerance": 1e-10, "dual_feasibility_tolerance": 1e-10}

# a 7-point cloud in 4-D whose vertex number 4, used as the query, sends quadprog into an endless loop
HANG_WITNESS = np.array([
    [22.069318824899312, 10.306605421282383, 127.7060626915825, 32.720270520899206],
    [83.09849579923798, 2.824236332897927, 48.64030270417513, 64.62158186214423],
    [20.035137319762878, 108.55465075215687, 1.2661080090217136, 57.50696854649397],
    [37.84853349203174, 4.602435343164179, 9.003264557716994, 6.721972609416928],
    [126.10719094546869, 29.019289942948024, 60.114886362086374, 89.61058194912204],
    [106.11457339493937, 2.1027626239090185, 10.966712749822706, 1.2450720868805596],
    [20.931234508750485, 31.113743936597736, 43.538534272167816, 139.76665565368216]])


M = Monitor(
    pid="C17",
    setup=_setup,
    decoy=True,
    title="Hull projections return the nearest point, the boundary hit and the exact slice",
    rule=("cases: clouds in d=2..5 {uniform x 10^[-3,3], gaussian, d+1..d+4 points, integer grids and random "
          "integer points (many coplanar), nearly flat (relative thickness 1e-4..1e-1 for the hull clauses, "
          "1e-9..1e-2 for the slice), exactly flat r<d, fewer points than dimensions, coplanar strips}; queries "
          "{inside, centre, on facet/edge/vertex, 1e-10..1e-1 outside a facet/edge/vertex, in a vertex cone, "
          "1..1e3 extents away, integer grid points}; directions {random, through vertices / boundary points, "
          "facet normals, parallel to a facet, norms 1e-150..1e150, axes}; c {uniform, within 1e-6 of either "
          "end, equal to a point's sum, equal to the smallest sum, arcsine}. non-trivial = nearest: >=1 query "
          "inside and >=1 outside; alpha: >=3 facets decide; slice: >=3 points and the slice is not a single "
          "point. distinct = hash of rounded inputs"),
    budget={"quick": (6000, 38), "thorough": (180000, 600)},
    anchors=[("dreye.api.project", "proj_B_to_hull"), ("dreye.api.project", "alpha_for_B_with_P"),
             ("dreye.api.project", "B_with_P"), ("dreye.api.project", "proj_P_to_simplex"),
             ("dreye.api.project", "yieldPpairs4proj2simplex"), ("dreye.api.project", "line_to_simplex"),
             ("dreye.api.project", "proj_P_for_hull")],
    deciding=["project.proj_B_to_hull", "project.alpha_for_B_with_P", "project.B_with_P",
              "project.proj_P_to_simplex", "project.yieldPpairs4proj2simplex", "project.line_to_simplex"],
    required_cells={"all": [
        "proj:d=2", "proj:d=3", "proj:d=4", "proj:d=5",
        "proj:cloud=random", "proj:cloud=gauss", "proj:cloud=small", "proj:cloud=lattice", "proj:cloud=randint",
        "proj:cloud=nearflat",
        "query=inside", "query=onfacet", "query=onedge", "query=onvertex", "query=nearfacet", "query=nearvertex",
        "query=nearedge", "query=vertexcone", "query=far", "query=farnormal", "query=intgrid",
        "proj:inside-unchanged-checked", "proj:outside-checked", "proj:B=2d", "proj:B=1d", "proj:B=3d",
        "alpha:d=2", "alpha:d=3", "alpha:d=4", "alpha:d=5",
        "alpha:cloud=random", "alpha:cloud=lattice", "alpha:cloud=nearflat", "alpha:cloud=small",
        "dir=random", "dir=vertex", "dir=boundarypoint", "dir=normal", "dir=negnormal", "dir=infacet",
        "dir=tiny", "dir=huge", "dir=axis", "alpha:gauge-lp",
        "slice:d=2", "slice:d=3", "slice:d=4", "slice:d=5",
        "slice:cloud=random", "slice:cloud=expo", "slice:cloud=lattice", "slice:cloud=randint",
        "slice:cloud=few", "slice:cloud=flat", "slice:cloud=flatlattice", "slice:cloud=nearflat",
        "slice:cloud=axes",
        "slice:path=hull", "slice:path=pca", "slice:path=line", "slice:path=allpairs",
        "c=mid", "c=lo-end", "c=hi-end", "c=eq-point", "c=eq-min", "c=arcsine",
        "slice:points-on-plane", "slice:int-dtype"]},
    assumptions=[
        "the input facet equations come from scipy.spatial.ConvexHull (qhull) on the generated cloud; the same "
        "cloud's hull vertices are the V-representation used by the oracle",
        "hulls thinner than 1e-4 of their extent are not generated for proj_B_to_hull: below ~1e-6 quadprog "
        "raises 'constraints are inconsistent' or returns feasible non-nearest points (floating-point band)",
        "alpha: directions keep |b| within 1e-150..1e150 (no overflow); the zero vector is excluded",
        "slice: c == largest sum is rejected by the function itself (AssertionError) and not generated; "
        "c == smallest sum is accepted by the function and is judged",
        "HiGHS LPs are solved on clouds normalised to max|P| = 1 with feasibility tolerances 1e-10",
        "a proj_B_to_hull batch that does not return within 3 s (and the single query within 4 s) in a forked "
        "child counts as 'does not return'; normal run time is ~2 ms"],
)


# =================================================================== helpers

def _hull(P):
    try:
        return ConvexHull(np.asarray(P, dtype=float))
    except (QhullError, ValueError):
        return None


def _grid(m, d):
    return np.stack(np.meshgrid(*[np.arange(m)] * d, indexing="ij"), -1).reshape(-1, d).astype(float)


def _unit(rng, d, k=None):
    u = rng.normal(size=(d,) if k is None else (k, d))
    return u / np.linalg.norm(u, axis=-1, keepdims=True)


MMAX = {2: 7, 3: 5, 4: 4, 5: 3}
HULL_CLASSES = ["random", "gauss", "small", "lattice", "randint", "nearflat"]


def _hull_cloud(rng, d, thin=(THIN_MIN, -1.0), classes=HULL_CLASSES):
    """(class, P) with a full-dimensional hull."""
    for _ in range(40):
        cls = classes[int(rng.integers(len(classes)))]
        if cls == "random":
            P = rng.uniform(0, 1, (int(rng.integers(d + 1, 41)), d)) * 10 ** rng.uniform(-3, 3)
        elif cls == "gauss":
            P = rng.normal(0, 1, (int(rng.integers(d + 1, 61)), d)) * 10 ** rng.uniform(-2, 2)
        elif cls == "small":
            P = rng.uniform(0, 1, (int(rng.integers(d + 1, d + 5)), d)) * 10 ** rng.uniform(0, 3)
        elif cls == "lattice":
            P = _grid(int(rng.integers(2, MMAX[d] + 1)), d)
            if rng.integers(2):
                P = P[rng.random(len(P)) < 0.7]
            if rng.integers(2):
                P = P * rng.integers(1, 4, d)
            if len(P) <= d:
                continue
        elif cls == "randint":
            P = rng.integers(0, 6, (int(rng.integers(d + 2, 61)), d)).astype(float)
        else:
            P = rng.normal(0, 1, (int(rng.integers(d + 1, 31)), d))
            P[:, -1] *= 10 ** rng.uniform(*thin)
            if rng.integers(2):
                q, _ = np.linalg.qr(rng.normal(size=(d, d)))
                P = P @ q
        h = _hull(P)
        if h is None or not np.all(np.isfinite(h.equations)):
            continue
        sv = np.linalg.svd(P[h.vertices] - P[h.vertices].mean(0), compute_uv=False)
        if sv[-1] >= 10 ** thin[0] * sv[0]:       # relative thickness of the hull (any class can be thin by chance)
            return cls, P
    return "small", np.vstack([np.zeros(d), np.eye(d)])


def _terminates(thunk, timeout):
    """Run thunk() in a forked child; 'ok' (returned or raised), 'hang' (killed after timeout) or
    'died' (the child vanished without reporting).  The parent's state is untouched."""
    r, w = os.pipe()
    with warnings.catch_warnings():
        warnings.simplefilter("ignore")      # "multi-threaded process + fork": the other threads are idle pools
        pid = os.fork()
    if pid == 0:  # child
        try:
            os.close(r)
            try:
                thunk()
            except BaseException:  # noqa - an exception is still "returned"; the parent re-runs and judges it
                pass
            os.write(w, b"k")
        finally:
            os._exit(0)
    os.close(w)
    try:
        ready, _, _ = select.select([r], [], [], timeout)
        if not ready:
            os.kill(pid, signal.SIGKILL)
            return "hang"
        return "ok" if os.read(r, 1) == b"k" else "died"
    finally:
        os.close(r)
        try:
            os.waitpid(pid, 0)
        except ChildProcessError:
            pass


# =================================================================== clause 1: nearest point

def _queries(rng, P, hull):
    d = P.shape[1]
    V = P[hull.vertices]
    S, N = hull.simplices, hull.equations[:, :-1]
    cen = V.mean(0)
    ext = float(np.max(V.max(0) - V.min(0)))
    B, kinds = [], []

    def add(kind, b):
        B.append(np.asarray(b, dtype=float))
        kinds.append(kind)

    def facet_point():
        f = int(rng.integers(len(S)))
        return f, rng.dirichlet(np.ones(d) * [0.3, 1.0, 5.0][rng.integers(3)]) @ P[S[f]]

    def edge_point():
        f = int(rng.integers(len(S)))
        a, b = rng.choice(d, 2, replace=False)
        t = rng.uniform()
        return t * P[S[f][a]] + (1 - t) * P[S[f][b]]

    for _ in range(3):
        add("inside", rng.dirichlet(np.ones(len(V)) * [0.3, 3.0][rng.integers(2)]) @ V)
    add("centre", cen)
    for _ in range(2):
        add("onfacet", facet_point()[1])
    for _ in range(2):
        add("onvertex", V[rng.integers(len(V))])
    add("onedge", edge_point())
    for _ in range(2):
        f, p = facet_point()
        add("nearfacet", p + N[f] * ext * 10 ** rng.uniform(-10, -1))
    for _ in range(2):
        add("nearvertex", V[rng.integers(len(V))] + _unit(rng, d) * ext * 10 ** rng.uniform(-10, -1))
    add("nearedge", edge_point() + _unit(rng, d) * ext * 10 ** rng.uniform(-8, -1))
    v = V[rng.integers(len(V))]
    add("vertexcone", v + (v - cen) * 10 ** rng.uniform(-3, 1))
    for _ in range(2):
        add("far", cen + _unit(rng, d) * ext * 10 ** rng.uniform(0, 3))
    f, p = facet_point()
    add("farnormal", p + N[f] * ext * 10 ** rng.uniform(0, 3))
    return np.array(B), kinds


def gen_proj(rng, i):
    if i == 0:      # deterministic hostile witness: a query equal to a highly degenerate hull vertex
        P = HANG_WITNESS.copy()
        B = np.vstack([P.mean(0), P[4], P[4] + 1e-3, P[0]])
        return {"P": P, "B": B, "kinds": ["centre", "onvertex", "nearvertex", "onvertex"], "cls": "small",
                "bshape": "2d", "int_B": False}
    d = 2 + i % 4
    cls, P = _hull_cloud(rng, d)
    hull = _hull(P)
    int_B = bool(cls in ("lattice", "randint") and rng.integers(3) == 0)
    if int_B:
        lo, hi = P.min(0), P.max(0)
        B = rng.integers(np.floor(lo).astype(int) - 2, np.ceil(hi).astype(int) + 3, (18, d)).astype(float)
        kinds = ["intgrid"] * 18
    else:
        B, kinds = _queries(rng, P, hull)
    return {"P": P, "B": B, "kinds": kinds, "cls": cls, "bshape": ["2d", "2d", "1d", "3d"][rng.integers(4)],
            "int_B": int_B}


def _proj_apply(call, B, eq, bshape, as_int):
    """Drive proj_B_to_hull on the rows of B in the requested batch layout; returns (k, d) or raises."""
    Bx = B.astype(np.int64) if as_int else B
    k, d = B.shape
    if bshape == "1d":
        return np.array([np.asarray(call(dreye.proj_B_to_hull, b, eq)) for b in Bx])
    if bshape == "3d" and k % 2 == 0:
        out = np.asarray(call(dreye.proj_B_to_hull, Bx.reshape(2, k // 2, d), eq))
        return out.reshape(k, d) if out.shape == (2, k // 2, d) else out
    return np.asarray(call(dreye.proj_B_to_hull, Bx, eq))


def chk_proj(inp, c):
    c.decoy = False     # a decoy query could run into the known quadprog hang outside the forked termination probe
    P, B, kinds = np.asarray(inp["P"], float), np.asarray(inp["B"], float), list(inp["kinds"])
    bshape, as_int = inp["bshape"], bool(inp["int_B"])
    k, d = B.shape
    hull = _hull(P)
    if hull is None:
        c.inconclusive("qhull could not build the input hull")
    eq = hull.equations
    N, off = eq[:, :-1], eq[:, -1]
    V = P[hull.vertices]
    cen = V.mean(0)
    ext = float(np.max(V.max(0) - V.min(0)))
    c.cell(f"proj:d={d}", "proj:cloud=" + inp["cls"], "proj:B=" + bshape, *("query=" + q for q in set(kinds)))
    if as_int:
        c.cell("proj:B-int-dtype")

    # ---- termination guard: whole batch (+ re-projection) in a forked child first
    raw = lambda fn, *a: fn(*a)

    def batch():
        Q0 = _proj_apply(raw, B, eq, bshape, as_int)
        _proj_apply(raw, np.asarray(Q0, float).reshape(k, d), eq, "2d", False)

    st = _terminates(batch, T_BATCH)
    if st != "ok":
        c.cell("proj:guard-tripped")
        one = lambda b: dreye.proj_B_to_hull(b, eq)
        for j in range(k):
            b = B[j].astype(np.int64) if as_int else B[j]
            s1 = _terminates(lambda: one(b), T_ROW)
            stage = "query"
            if s1 == "ok":
                s1 = _terminates(lambda: one(one(b)), T_ROW)
                stage = "re-projection of the returned point"
            if s1 != "ok":
                fv = N @ B[j] + off
                c.fail(f"proj_B_to_hull does not return ({'no answer within %g s' % T_ROW if s1 == 'hang' else 'process died'}; "
                       f"stage: {stage})",
                       mechanism="hang:proj_B_to_hull" if s1 == "hang" else "crash:proj_B_to_hull",
                       row=j, kind=kinds[j], query=B[j], n_facets=int(len(eq)),
                       facets_within_1e9=int(np.sum(np.abs(fv) <= 1e-9 * ext)), max_facet_value=float(fv.max()))
        c.inconclusive("batch exceeded the time limit but no single query reproduces it")

    # ---- the real, in-process run
    Q = _proj_apply(c.call, B, eq, bshape, as_int)
    if not c.require(isinstance(Q, np.ndarray) and Q.shape == (k, d) and Q.dtype.kind == "f",
                     "result has the shape of B (float)", mechanism="shape", got=list(np.shape(Q))):
        return
    if not c.require(bool(np.all(np.isfinite(Q))), "projection is finite", mechanism="nonfinite"):
        return
    Q2 = _proj_apply(c.call, Q, eq, "2d", False)
    sc = np.maximum(ext, np.linalg.norm(B - cen, axis=1))            # per query scale
    fb = np.max(B @ N.T + off, axis=1)                                 # >0 outside
    fq = np.max(Q @ N.T + off, axis=1)
    j = int(np.argmax(fq / sc))
    c.margin("facet inequalities", float(np.max(fq / sc)), TOL_FEAS)
    c.require(bool(np.all(fq <= TOL_FEAS * sc)), "returned point satisfies every facet inequality",
              mechanism="infeasible", row=j, kind=kinds[j], violation=float(fq[j]), scale=float(sc[j]))
    inside = fb <= 0
    moved = np.max(np.abs(Q - B), axis=1)
    if inside.any():
        c.cell("proj:inside-unchanged-checked")
        j = int(np.argmax(np.where(inside, moved / sc, -1)))
        c.margin("inside unchanged", float(moved[j] / sc[j]), TOL_SAME)
        c.require(bool(np.all(moved[inside] <= TOL_SAME * sc[inside])), "a point of the hull is returned unchanged",
                  mechanism="inside-moved", row=j, kind=kinds[j], query=B[j], got=Q[j], moved=float(moved[j]))
    # variational inequality against every vertex of the hull
    vi = np.max(np.einsum("kd,kvd->kv", B - Q, V[None, :, :] - Q[:, None, :]), axis=1)
    j = int(np.argmax(vi / sc ** 2))
    c.margin("variational inequality", float(vi[j] / sc[j] ** 2), TOL_VI)
    c.require(bool(np.all(vi <= TOL_VI * sc ** 2)),
              "returned point is the nearest point of the hull: (b-q).(v-q) <= 0 for every vertex v",
              mechanism="not-nearest", row=j, kind=kinds[j], query=B[j], got=Q[j], vi=float(vi[j]),
              dist_got=float(np.linalg.norm(B[j] - Q[j])), scale=float(sc[j]))
    if (~inside).any():
        c.cell("proj:outside-checked")
    if c.require(isinstance(Q2, np.ndarray) and Q2.shape == (k, d) and bool(np.all(np.isfinite(Q2))),
                 "re-projection has the same shape and is finite", mechanism="shape"):
        idem = np.max(np.abs(Q2 - Q), axis=1)
        j = int(np.argmax(idem / sc))
        c.margin("idempotence", float(idem[j] / sc[j]), TOL_SAME)
        c.require(bool(np.all(idem <= TOL_SAME * sc)), "projecting the projection changes nothing",
                  mechanism="not-idempotent", row=j, kind=kinds[j], moved=float(idem[j]))
    c.nontrivial(bool(inside.any() and (fb > 1e-6 * ext).any()))
    jo = int(np.argmax(fb))
    c.note("n_facets_vertices", [int(len(eq)), int(len(V))])
    c.note("farthest_query", {"kind": kinds[jo], "b": B[jo], "returned": Q[jo],
                              "distance": float(np.linalg.norm(B[jo] - Q[jo])),
                              "max_vertex_inner_product": float(vi[jo]), "max_facet_value_of_result": float(fq[jo])})


M.add("nearest_point", gen_proj, chk_proj, weight=3, min_held=300)


# =================================================================== clause 2: boundary scaling

ALPHA_CLASSES = ["random", "gauss", "small", "lattice", "randint", "nearflat"]


def gen_alpha(rng, i):
    d = 2 + i % 4
    cls, P = _hull_cloud(rng, d, thin=(-3.0, -1.0), classes=ALPHA_CLASSES)
    hull = _hull(P)
    V = P[hull.vertices]
    cen = V.mean(0)
    o = None
    if cls in ("lattice", "randint") and rng.integers(2):
        # an interior lattice point as origin keeps the coordinates integral
        vals = P @ hull.equations[:, :-1].T + hull.equations[:, -1]
        inner = np.flatnonzero(np.max(vals, axis=1) < -1e-9)
        if len(inner):
            o = P[inner[rng.integers(len(inner))]]
    if o is None:
        w = rng.dirichlet(np.ones(len(V)) * [0.3, 3.0][rng.integers(2)])
        s = rng.uniform(0, 0.98)
        o = (1 - s) * cen + s * (w @ V)
    P0 = P - o
    hull = _hull(P0)
    if hull is None:
        P0 = np.vstack([-np.ones(d), np.eye(d) * (d + 1) - 1.0])
        hull, cls = _hull(P0), "small"
    V = P0[hull.vertices]
    S, N = hull.simplices, hull.equations[:, :-1]
    B, kinds, expect = [], [], []

    def add(kind, b, e=-1.0):
        B.append(np.asarray(b, float))
        kinds.append(kind)
        expect.append(float(e))

    for _ in range(5):
        add("random", rng.normal(size=d) * 10 ** rng.uniform(-2, 2))
    for _ in range(2):
        s = 10 ** rng.uniform(-3, 3) if rng.integers(2) else 1.0
        add("vertex", V[rng.integers(len(V))] * s, 1.0 / s)
    for _ in range(2):
        f = int(rng.integers(len(S)))
        s = 10 ** rng.uniform(-3, 3)
        add("boundarypoint", (rng.dirichlet(np.ones(d)) @ P0[S[f]]) * s, 1.0 / s)
    for _ in range(2):
        add("normal", N[rng.integers(len(N))])
    add("negnormal", -N[rng.integers(len(N))])
    for _ in range(2):
        f = int(rng.integers(len(S)))
        a, b = rng.choice(d, 2, replace=False)
        add("infacet", P0[S[f][a]] - P0[S[f][b]])
    add("tiny", _unit(rng, d) * 10 ** rng.uniform(-150, -10))
    add("huge", _unit(rng, d) * 10 ** rng.uniform(10, 150))
    for _ in range(2):
        e = np.zeros(d)
        e[rng.integers(d)] = [-1.0, 1.0][rng.integers(2)]
        add("axis", e)
    if i % 40 == 7:
        # a large call: so many query vectors that (vectors x facets) exceeds 2^20 (internal tables, chunking)
        kk = min(int(2 ** 20 // max(len(N), 1)) + int(rng.integers(50, 500)), 60000)
        for v in rng.normal(size=(kk, d)) * 10 ** rng.uniform(-1, 1):
            add("bulk", v)
    bshape = ["2d", "2d", "1d", "3d"][rng.integers(4)]
    if len(B) > 1000 and bshape == "1d":
        bshape = "2d"           # one call with all vectors (row-by-row calls would never reach the size threshold)
    return {"P0": P0, "B": np.array(B), "kinds": kinds, "expect": np.array(expect), "cls": cls, "bshape": bshape}


def _gauge_lp(V, b):
    """max t such that t*b is a convex combination of the rows of V (V-representation, HiGHS)."""
    k, d = V.shape
    cost = np.zeros(k + 1)
    cost[-1] = -1.0
    A_eq = np.vstack([np.hstack([V.T, -b[:, None]]), np.concatenate([np.ones(k), [0.0]])[None, :]])
    b_eq = np.concatenate([np.zeros(d), [1.0]])
    r = linprog(cost, A_eq=A_eq, b_eq=b_eq, bounds=[(0, None)] * (k + 1), method="highs", options=LP_OPTS)
    return float(r.x[-1]) if r.status == 0 else None


def chk_alpha(inp, c):
    P0, B, kinds = np.asarray(inp["P0"], float), np.asarray(inp["B"], float), list(inp["kinds"])
    expect, bshape = np.asarray(inp["expect"], float), inp["bshape"]
    k, d = B.shape
    if k > 1000:
        c.cell("alpha:large-call")
    hull = _hull(P0)
    if hull is None:
        c.inconclusive("qhull could not build the input hull")
    eq = hull.equations
    N, off = eq[:, :-1], eq[:, -1]
    V = P0[hull.vertices]
    ext = float(np.max(V.max(0) - V.min(0)))
    if not np.max(off) < -1e-6 * ext:
        c.unmet("origin is not strictly inside the hull")
    if not np.all(np.linalg.norm(B, axis=1) > 0):
        c.unmet("zero vector has no multiple on the boundary")
    c.cell(f"alpha:d={d}", "alpha:cloud=" + inp["cls"], "alpha:B=" + bshape, *("dir=" + q for q in set(kinds)))

    def run(fn, Bx):
        if bshape == "1d":
            return np.array([np.asarray(c.call(fn, b, eq)) for b in Bx])
        if bshape == "3d" and k % 2 == 0:
            out = np.asarray(c.call(fn, Bx.reshape(2, k // 2, d), eq))
            return out.reshape((k,) + out.shape[2:]) if out.shape[:2] == (2, k // 2) else out
        return np.asarray(c.call(fn, Bx, eq))

    alpha = run(dreye.alpha_for_B_with_P, B)
    X = run(dreye.B_with_P, B)
    if not c.require(alpha.shape == (k,) and alpha.dtype.kind == "f", "one multiple per vector",
                     mechanism="alpha-shape", got=list(alpha.shape)):
        return
    ok = np.isfinite(alpha) & (alpha > 0)
    j = int(np.argmin(ok))
    if not c.require(bool(ok.all()), "the multiple is positive and finite", mechanism="alpha-not-positive",
                     row=j, kind=kinds[j], alpha=float(alpha[j]), direction=B[j]):
        return
    Y = alpha[:, None] * B
    res = np.max(Y @ N.T + off, axis=1)                 # 0 exactly on the boundary, <0 inside, >0 outside
    j = int(np.argmax(np.abs(res)))
    c.margin("boundary residual", float(np.abs(res[j]) / ext), TOL_BND)
    c.require(bool(np.all(np.abs(res) <= TOL_BND * ext)),
              "alpha*b lies on the hull boundary: max over facets of (n.(alpha b) + offset) == 0",
              mechanism="alpha-not-on-boundary", row=j, kind=kinds[j], direction=B[j], alpha=float(alpha[j]),
              residual=float(res[j]), extent=ext)
    known = expect > 0
    if known.any():
        dev = np.abs(alpha[known] * 1.0 / expect[known] - 1.0)
        c.margin("alpha through a known boundary point", float(dev.max()), 1e-9)
        c.require(bool(np.all(dev <= 1e-9)), "the multiple of s*p for a boundary point p is 1/s",
                  mechanism="alpha-known-boundary-point", got=alpha[known], want=expect[known])
    if c.require(X.shape == (k, d) and bool(np.all(np.isfinite(X))), "B_with_P returns one finite point per vector",
                 mechanism="bwp-shape", got=list(X.shape)):
        dev = np.max(np.abs(X - Y), axis=1)
        c.margin("B_with_P == alpha*B", float(dev.max() / ext), 1e-12)
        c.require(bool(np.all(dev <= 1e-12 * ext)), "B_with_P equals alpha[..., None] * B",
                  mechanism="bwp-not-alpha-times-B", max_dev=float(dev.max()))
    # positive homogeneity (power of two: exact)
    a8 = run(dreye.alpha_for_B_with_P, B * 8.0)
    if c.require(a8.shape == (k,), "shape stable under scaling", mechanism="alpha-shape"):
        c.require(bool(np.all(np.abs(a8 * 8.0 - alpha) <= 1e-14 * alpha)), "alpha(8 b) == alpha(b) / 8",
                  mechanism="alpha-not-homogeneous", got=a8[:4], want=(alpha / 8.0)[:4])
    # independent V-representation oracle for a few directions
    rows = [0, 5, 9] if k > 9 else [0]
    for j in rows:
        u = B[j] / np.linalg.norm(B[j])
        t = _gauge_lp(V / ext, u)
        if t is None:
            c.inconclusive("gauge LP not optimal", abort=False)
            continue
        c.cell("alpha:gauge-lp")
        got = alpha[j] * np.linalg.norm(B[j]) / ext
        c.margin("alpha vs gauge LP", abs(got - t) / t, TOL_GAUGE)
        c.require(abs(got - t) <= TOL_GAUGE * t, "alpha*|b| equals the gauge LP over the hull vertices",
                  mechanism="alpha-vs-gauge-lp", row=j, kind=kinds[j], got=float(got), lp=float(t))
    deciding = np.argmax(Y @ N.T + off, axis=1)
    c.nontrivial(len(set(deciding.tolist())) >= 3)
    c.note("alpha_head", {"kinds": kinds[:6], "alpha": alpha[:6], "boundary_residual": res[:6]})
    c.note("origin_depth_over_extent", float(-np.max(off) / ext))


M.add("boundary_scaling", gen_alpha, chk_alpha, weight=2, min_held=200)


# =================================================================== clause 3: exact slice

SLICE_CLASSES = ["random", "random", "expo", "lattice", "lattice", "randint", "few", "few", "flat", "flatlattice",
                 "nearflat", "axes", "strip"]


def _slice_cloud(rng, d):
    for _ in range(40):
        cls = SLICE_CLASSES[int(rng.integers(len(SLICE_CLASSES)))]
        if cls == "strip" and (d < 3 or not HOSTILE_THIN_FLAT):
            cls = "flatlattice"
        if cls == "random":
            P = rng.uniform(0, 1, (int(rng.integers(d + 1, 41)), d)) * 10 ** rng.uniform(-3, 3)
        elif cls == "expo":
            P = 10 ** rng.uniform(-3, 1, (int(rng.integers(d + 1, 31)), d))
        elif cls == "lattice":
            P = _grid(int(rng.integers(2, MMAX[d] + 1)), d)
            if rng.integers(2):
                P = P[rng.random(len(P)) < 0.7]
            if rng.integers(2):
                P = P * rng.integers(1, 4, d)
            P = P + rng.integers(0, 3, d) * rng.integers(2)
        elif cls == "randint":
            P = rng.integers(0, 6, (int(rng.integers(d + 1, 61)), d)).astype(float)
        elif cls == "few":
            n = int(rng.integers(2, d + 1))
            P = rng.uniform(0, 1, (n, d)) if rng.integers(2) else rng.integers(0, 5, (n, d)).astype(float)
        elif cls == "flat":
            r = int(rng.integers(1, d))
            base = rng.uniform(0, 1, (r + 1, d)) * 10 ** rng.uniform(-2, 2)
            P = rng.dirichlet(np.ones(r + 1), int(rng.integers(d + 1, 31))) @ base
            if rng.integers(2):
                P = np.vstack([P, base])
        elif cls == "flatlattice":
            r = int(rng.integers(1, d))
            P = (_grid(int(rng.integers(2, 6)), r) @ rng.integers(0, 3, (r, d)) + rng.integers(0, 3, d)).astype(float)
        elif cls == "nearflat":
            P = rng.uniform(0.2, 1, (int(rng.integers(d + 1, 31)), d))
            nrm = _unit(rng, d)
            P = np.abs(P - np.outer((P - P.mean(0)) @ nrm, nrm) * (1 - 10 ** rng.uniform(-9, -2)))
        elif cls == "axes":
            P = np.diag(10 ** rng.uniform(-2, 2, d))
            extra = rng.dirichlet(np.ones(d) * 0.5, int(rng.integers(1, 12))) @ P * rng.uniform(0, 1.2)
            P = np.vstack([P, extra, np.zeros((int(rng.integers(2)), d))])
        else:   # strip: L x 1 coplanar integer strip in d >= 3 dimensions
            L = int([3, 30, 100, 250, 400, 1000, 3000][rng.integers(7)])
            u1, u2 = np.zeros(d), np.zeros(d)
            a, b = rng.choice(d, 2, replace=False)
            u1[a], u2[b] = 1.0, 1.0
            if rng.integers(2):
                u1 = u1 + (rng.integers(0, 2, d) * (np.arange(d) != b))
            ii = np.unique(np.concatenate([[0, L], rng.integers(0, L + 1, int(rng.integers(2, 12)))]))
            P = np.array([i * u1 + j * u2 for i in ii for j in (0, 1)]) + rng.integers(0, 2, d)
        P = np.asarray(P, dtype=float)
        ps = P.sum(1)
        if len(P) >= 2 and ps.max() > ps.min() * (1 + 1e-6) + 1e-12 and ps.max() > 0 and np.all(P >= 0):
            return cls, P
    return "few", np.array([[1.0] + [0.0] * (d - 1), [0.0] * (d - 1) + [3.0]])


def gen_slice(rng, i):
    d = 2 + i % 4
    cls, P = _slice_cloud(rng, d)
    ps = P.sum(1)
    lo, hi = float(ps.min()), float(ps.max())
    ckind, cval = "mid", lo + (hi - lo) * rng.uniform(0.02, 0.98)
    for _ in range(6):
        kind = ["mid", "lo-end", "hi-end", "eq-point", "eq-min", "arcsine", "half"][rng.integers(7)]
        if kind == "mid":
            cand = rng.uniform(lo, hi)
        elif kind == "lo-end":
            cand = lo + (hi - lo) * 1e-6 * rng.uniform(0.01, 1)
        elif kind == "hi-end":
            cand = hi - (hi - lo) * 1e-6 * rng.uniform(0.01, 1)
        elif kind == "eq-point":
            inner = ps[(ps > lo) & (ps < hi)]
            if not len(inner):
                continue
            cand = inner[rng.integers(len(inner))]
        elif kind == "eq-min":
            cand = lo
        elif kind == "arcsine":
            cand = lo + (hi - lo) * rng.beta(0.5, 0.5)
        else:
            cand = np.floor(rng.uniform(lo, hi)) + 0.5
        cand = float(cand)
        if cand > 0 and lo <= cand < hi and (kind == "eq-min" or cand > lo):
            ckind, cval = kind, cand
            break
    return {"P": P, "c": cval, "ckind": ckind, "cls": cls,
            "int_P": bool(np.all(P == np.round(P)) and rng.integers(3) == 0),
            "U": np.vstack([_inplane(rng, d, 16), np.eye(d), -np.eye(d)])}


def _inplane(rng, d, k):
    u = rng.normal(size=(k, d))
    u -= u.mean(1, keepdims=True)          # orthogonal to (1, ..., 1): directions within the plane
    return u / np.linalg.norm(u, axis=1, keepdims=True)


def _support_lp(Pn, cn, U):
    """h(u) = max u.x over x = sum_i lam_i P_i, lam >= 0, sum lam = 1, sum(x) = c."""
    n = len(Pn)
    A_eq = np.vstack([np.ones(n), Pn.sum(1)])
    out = np.empty(len(U))
    for j, u in enumerate(U):
        r = linprog(-(Pn @ u), A_eq=A_eq, b_eq=[1.0, cn], bounds=[(0, None)] * n, method="highs", options=LP_OPTS)
        if r.status != 0:
            return None
        out[j] = -r.fun
    return out


def _support_pairs(P, c, U):
    """conv(P) cut by {sum = c} is the hull of the cuts of all segments [P_i, P_j] with s_i <= c <= s_j."""
    ps = P.sum(1)
    I, J = np.meshgrid(np.flatnonzero(ps <= c), np.flatnonzero(ps >= c), indexing="ij")
    I, J = I.ravel(), J.ravel()
    den = ps[J] - ps[I]
    keep = (den > 0) | ((ps[I] == c) & (ps[J] == c))
    I, J, den = I[keep], J[keep], den[keep]
    t = np.where(den > 0, (c - ps[I]) / np.where(den > 0, den, 1.0), 0.0)
    X = P[I] + t[:, None] * (P[J] - P[I])
    return (X @ U.T).max(0)


def _member_lp(Pn, x):
    k, d = Pn.shape
    cost = np.zeros(k + 1)
    cost[-1] = 1.0
    A_ub = np.block([[Pn.T, -np.ones((d, 1))], [-Pn.T, -np.ones((d, 1))]])
    A_eq = np.concatenate([np.ones(k), [0.0]])[None, :]
    r = linprog(cost, A_ub=A_ub, b_ub=np.concatenate([x, -x]), A_eq=A_eq, b_eq=[1.0],
                bounds=[(0, None)] * (k + 1), method="highs", options=LP_OPTS)
    return float(r.x[-1]) if r.status == 0 else None


def _code_path(P):
    """Which branch of yieldPpairs4proj2simplex this cloud takes, and whether the explained-variance test
    np.isclose(cumulative ratio, 1) stops before the true rank (labels only - not an oracle)."""
    n, d = P.shape
    if n <= d:
        return "allpairs", False
    if _hull(P) is not None:
        return "hull", False
    s = np.linalg.svd(P - P.mean(0), compute_uv=False)
    rank = int(np.sum(s > 1e-9 * s[0]))
    cum = np.cumsum(s ** 2)[: d - 1] / np.sum(s ** 2)
    hit = np.flatnonzero(np.isclose(cum, 1))
    ndim = int(hit[0]) + 1 if len(hit) else d - 1
    return ("line" if ndim == 1 else "pca"), bool(ndim < rank)


def chk_slice(inp, c):
    P, cval, U = np.asarray(inp["P"], float), float(inp["c"]), np.asarray(inp["U"], float)
    n, d = P.shape
    ps = P.sum(1)
    lo, hi = float(ps.min()), float(ps.max())
    if not (np.all(P >= 0) and cval > 0 and lo <= cval < hi):
        c.unmet("c not admissible (needs smallest sum <= c < largest sum, c > 0, P >= 0)")
    scale = float(np.abs(P).max())
    path, underestimated = _code_path(P)
    c.cell(f"slice:d={d}", "slice:cloud=" + inp["cls"], "slice:path=" + path, "c=" + inp["ckind"])
    if np.any(ps == cval):
        c.cell("slice:points-on-plane")
    if underestimated:
        c.cell("slice:flat-thin(variance-test-stops-early)")
    Parg = P.astype(np.int64) if inp["int_P"] else P.copy()
    if inp["int_P"]:
        c.cell("slice:int-dtype")
    X = c.call(dreye.proj_P_to_simplex, Parg, cval)
    if not c.require(isinstance(X, np.ndarray) and X.ndim == 2 and X.shape[1] == d and X.shape[0] >= 1
                     and X.dtype.kind == "f", "returns a non-empty (k, d) float array", mechanism="slice-shape",
                     got=list(np.shape(X))):
        return
    if not c.require(bool(np.all(np.isfinite(X))), "returned points are finite", mechanism="slice-nonfinite"):
        return
    sdev = np.abs(X.sum(1) - cval)
    c.margin("coordinate sum", float(sdev.max() / cval), TOL_SUM)
    c.require(bool(np.all(sdev <= TOL_SUM * cval)), "every returned point sums to c", mechanism="slice-sum",
              worst=float(sdev.max()), c=cval, point=X[int(np.argmax(sdev))])
    # oracles
    h_pairs = _support_pairs(P, cval, U)
    h_lp = _support_lp(P / scale, cval / scale, U)
    if h_lp is None:
        c.inconclusive("support LP not optimal")
    h_lp = h_lp * scale
    odev = float(np.max(np.abs(h_lp - h_pairs)))
    c.margin("LP oracle vs closed-form oracle", odev / scale, TOL_ORACLES)
    if odev > TOL_ORACLES * scale:
        c.inconclusive("the two slice oracles disagree")
    got = (X @ U.T).max(0)
    dev = np.abs(got - h_lp)
    j = int(np.argmax(dev))
    c.margin("support function", float(dev[j] / scale), TOL_SUPPORT)
    c.require(bool(np.all(dev <= TOL_SUPPORT * scale)),
              "hull of the returned points == conv(P) cut by the plane (equal support functions)",
              mechanism=("slice-support:flat-cloud-rank-underestimated" if underestimated else "slice-support"),
              direction=U[j], got=float(got[j]), lp=float(h_lp[j]), closed_form=float(h_pairs[j]),
              missing=bool(got[j] < h_lp[j]), n_returned=int(len(X)), code_path=path, c=cval)
    # soundness of individual points (subset direction, all directions at once)
    for r in np.unique(np.linspace(0, len(X) - 1, 3).astype(int)):
        t = _member_lp(P / scale, X[r] / scale)
        if t is None:
            c.inconclusive("membership LP not optimal", abort=False)
            continue
        c.margin("returned point in conv(P)", t, TOL_MEMBER)
        c.require(t <= TOL_MEMBER, "every returned point is a point of conv(P)", mechanism="slice-point-outside-hull",
                  row=int(r), point=X[r], residual=t * scale)
    width = float(np.max(h_pairs[:16] + _support_pairs(P, cval, -U[:16])))      # extent of the slice along u
    c.nontrivial(n >= 3 and width > 1e-6 * scale)
    c.note("n_points_returned", [int(n), int(len(X))])
    c.note("support_head", {"returned": got[:4], "lp": h_lp[:4], "closed_form": h_pairs[:4]})
    c.note("sum_of_returned", {"c": cval, "min": float(X.sum(1).min()), "max": float(X.sum(1).max())})


M.add("simplex_slice", gen_slice, chk_slice, weight=2, min_held=300)
