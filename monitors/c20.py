"""C20 — irradiance <-> photon-flux conversion is the physical law and its exact inverse.

Contracts on the return values of dreye.irr2flux / dreye.flux2irr; oracle = CODATA closed
form typed in here (exact SI defining constants), independent of pint.
"""
import numpy as np

from harness import runtime
from harness.core import Monitor

H = 6.62607015e-34       # J s   (exact, SI 2019)
C = 299792458.0          # m / s (exact)
NA = 6.02214076e23       # 1/mol (exact)
PREFIX = {None: 1.0, "": 1.0, "milli": 1e3, "micro": 1e6, "nano": 1e9}
REL = 1e-12

dreye = None


def _setup():
    global dreye
    dreye = runtime.load_dreye()


M = Monitor(
    pid="C20",
    setup=_setup,
    decoy=True,
    title="Irradiance <-> photon-flux conversion is the physical law and its exact inverse",
    rule=("cases: random spectra (scalar, 1-D, N-D with the wavelength on a random axis), wavelengths "
          "100-2000 nm, prefixes ''/milli/micro/nano, plain arrays and pint quantities (incl. um, mW, uE). "
          "non-trivial = at least 2 wavelengths and a non-zero spectrum; distinct = hash of rounded inputs"),
    budget={"quick": (6000, 40), "thorough": (200000, 400)},
    anchors=[("dreye.api.units.convert", "irr2flux"), ("dreye.api.units.convert", "flux2irr"),
             ("dreye.api.units.convert", "optional_to")],
    deciding=["convert.irr2flux", "convert.flux2irr"],
    required_cells={"all": ["prefix=", "prefix=milli", "prefix=micro", "prefix=nano", "pint", "plain",
                            "axis-given", "ndim>=2"]},
    assumptions=["CODATA 2019 exact constants h, c, N_A typed into the monitor",
                 "floating-point agreement asserted to 1e-12 relative"],
)


def law(I, lam_nm, prefix):
    return I * lam_nm * 1e-9 / (H * C * NA) * PREFIX[prefix]


def _pre(rng):
    return [None, "", "milli", "micro", "nano"][rng.integers(5)]


def _wl(rng, n):
    kind = rng.integers(3)
    if kind == 0:
        return np.sort(rng.uniform(100, 2000, n))
    if kind == 1:
        lo = rng.uniform(100, 1500)
        return np.linspace(lo, lo + rng.uniform(1, 500), n)
    return rng.permutation(np.sort(rng.uniform(100, 2000, n)))   # order must not matter element-wise


def _spec(rng, shape):
    kind = rng.integers(4)
    if kind == 0:
        return rng.uniform(0, 10, shape)
    if kind == 1:
        return 10.0 ** rng.uniform(-12, 6, shape)
    if kind == 2:
        return rng.normal(0, 1, shape)          # property: all finite spectra
    return rng.integers(0, 5, shape).astype(float)


# ------------------------------------------------------------------ clause: closed form

def gen_plain(rng, i):
    nd = int(rng.integers(0, 4))
    n = int(rng.integers(1, 40))
    if nd == 0:
        return {"I": np.asarray(float(_spec(rng, ()))), "wl": np.asarray(float(rng.uniform(100, 2000))),
                "prefix": _pre(rng), "axis": None, "dir": int(rng.integers(2))}
    shape = [int(rng.integers(1, 5)) for _ in range(nd)]
    ax = int(rng.integers(nd))
    shape[ax] = n
    use_axis = bool(rng.integers(2)) or ax != nd - 1
    return {"I": _spec(rng, tuple(shape)), "wl": _wl(rng, n), "prefix": _pre(rng),
            "axis": (ax - nd if rng.integers(2) else ax) if use_axis else None,
            "dir": int(rng.integers(2))}


def _expected(I, wl, prefix, axis, direction):
    if I.ndim == 0:
        lam = wl
    else:
        ax = (I.ndim - 1) if axis is None else axis
        shp = [1] * I.ndim
        shp[ax] = -1
        lam = wl.reshape(shp)
    if direction == 0:
        return law(I, lam, prefix)
    # flux -> irradiance: inverse of the un-prefixed law, then the SI prefix of the output
    return I / (lam * 1e-9 / (H * C * NA)) * PREFIX[prefix]


def chk_plain(inp, c):
    I, wl, prefix, axis, d = inp["I"], inp["wl"], inp["prefix"], inp["axis"], inp["dir"]
    fn = dreye.irr2flux if d == 0 else dreye.flux2irr
    c.cell("prefix=" + (prefix or ""), "plain", "dir=" + ("irr2flux" if d == 0 else "flux2irr"))
    if axis is not None:
        c.cell("axis-given")
    if I.ndim >= 2:
        c.cell("ndim>=2")
    if I.ndim == 0:
        c.cell("scalar")
    kw = {"prefix": prefix}
    if axis is not None:
        kw["axis"] = axis
    got = c.call(fn, I.copy() if I.ndim else float(I), wl.copy() if wl.ndim else float(wl), **kw)
    want = _expected(I, wl, prefix, axis, d)
    c.require(not hasattr(got, "units"), "plain input returns plain numbers", got_type=str(type(got)))
    got = np.asarray(got, dtype=float)
    c.require_close(got, want, "value equals I*lambda/(h c N_A) closed form (or its inverse)",
                    tol_rel=REL, tol_abs=0.0, mechanism="closed-form")
    c.nontrivial(I.size >= 2 and np.any(I != 0))
    c.note("first_values", {"got": got.ravel()[:3], "want": np.asarray(want).ravel()[:3]})


M.add("closed_form_plain", gen_plain, chk_plain, weight=4, min_held=50)


# ------------------------------------------------------------------ clause: round trip + linearity

def gen_rt(rng, i):
    n = int(rng.integers(2, 30))
    rows = int(rng.integers(1, 4))
    return {"I1": _spec(rng, (rows, n)), "I2": _spec(rng, (rows, n)), "wl": _wl(rng, n),
            "a": float(rng.normal()), "b": float(rng.normal()), "p1": _pre(rng), "dir": int(rng.integers(2))}


def chk_rt(inp, c):
    I1, I2, wl, a, b, p = inp["I1"], inp["I2"], inp["wl"], inp["a"], inp["b"], inp["p1"]
    f, g = (dreye.irr2flux, dreye.flux2irr) if inp["dir"] == 0 else (dreye.flux2irr, dreye.irr2flux)
    c.cell("roundtrip", "prefix=" + (p or ""))
    y = np.asarray(c.call(f, I1, wl, prefix=p))
    # inverse: undo the prefix numerically, then convert back
    back = np.asarray(c.call(g, y / PREFIX[p], wl))
    c.require_close(back, I1, "flux2irr(irr2flux(x)) == x (exact inverse)", tol_rel=1e-12,
                    tol_abs=1e-300, mechanism="roundtrip")
    lhs = np.asarray(c.call(f, a * I1 + b * I2, wl, prefix=p))
    rhs = a * y + b * np.asarray(c.call(f, I2, wl, prefix=p))
    scale = np.abs(a) * np.abs(y) + np.abs(b) * np.abs(np.asarray(f(I2, wl, prefix=p)))
    dev = np.abs(lhs - rhs)
    c.require(np.all(dev <= 1e-12 * scale + 1e-300), "linear in the spectrum (superposition)",
              mechanism="linearity", max_dev=float(np.max(dev)))
    # element-wise: changing one wavelength sample changes only that column
    j = I1.shape[1] // 2
    I3 = I1.copy()
    I3[:, j] += 1.0
    y3 = np.asarray(c.call(f, I3, wl, prefix=p))
    mask = np.ones(I1.shape[1], bool)
    mask[j] = False
    c.require(np.array_equal(y3[:, mask], y[:, mask]), "acts element-wise along the wavelength axis",
              mechanism="elementwise")
    c.nontrivial(np.any(I1 != 0))
    c.note("roundtrip_max_rel_err", float(np.max(np.abs(back - I1) / np.maximum(np.abs(I1), 1e-300))))


M.add("roundtrip_linear", gen_rt, chk_rt, weight=2, min_held=30)


# ------------------------------------------------------------------ clause: pint quantities

UNIT_VARIANTS_I = [("I", 1.0), ("spectralirradiance", 1.0), ("W/m**2/nm", 1.0), ("mW/m**2/nm", 1e-3),
                   ("uW/cm**2/nm", 1e-2), ("W/m**3", 1e-9)]
UNIT_VARIANTS_E = [("E", 1.0), ("mol/m**2/s/nm", 1.0), ("microE", 1e-6), ("umol/m**2/s/nm", 1e-6)]
UNIT_VARIANTS_WL = [("nm", 1.0), ("um", 1e3), ("m", 1e9), ("angstrom", 0.1)]


def gen_pint(rng, i):
    n = int(rng.integers(1, 25))
    return {"I": np.abs(_spec(rng, (n,))) + 0.0, "wl": np.sort(rng.uniform(100, 2000, n)),
            "prefix": _pre(rng), "dir": int(rng.integers(2)),
            "ui": int(rng.integers(6)), "uw": int(rng.integers(4)), "wl_units": bool(rng.integers(2)),
            "return_units": [None, True, False][rng.integers(3)]}


def chk_pint(inp, c):
    ureg = dreye.ureg
    I, wl, prefix, d = inp["I"], inp["wl"], inp["prefix"], inp["dir"]
    c.cell("pint", "prefix=" + (prefix or ""))
    if d == 0:
        uname, ufac = UNIT_VARIANTS_I[inp["ui"] % len(UNIT_VARIANTS_I)]
        fn, out_unit = dreye.irr2flux, f"{prefix or ''}E"
    else:
        uname, ufac = UNIT_VARIANTS_E[inp["ui"] % len(UNIT_VARIANTS_E)]
        fn, out_unit = dreye.flux2irr, f"{prefix or ''}spectralirradiance"
    wname, wfac = UNIT_VARIANTS_WL[inp["uw"]]
    c.cell("unit=" + uname, "wlunit=" + (wname if inp["wl_units"] else "plain"))
    # the physical quantity is I (in base units I / E) and wl (nm); express them in other units
    q = (I / ufac) * ureg(uname)
    w = (wl / wfac) * ureg(wname) if inp["wl_units"] else wl
    got_q = c.call(fn, q, w, prefix=prefix, return_units=inp["return_units"])
    plain = np.asarray(c.call(fn, I, wl, prefix=prefix))
    want = _expected(I, wl, prefix, None, d)
    expect_units = inp["return_units"] in (None, True)
    c.require(hasattr(got_q, "units") == expect_units, "returns a quantity iff asked / input had units",
              mechanism="return-type", got_type=str(type(got_q)))
    if hasattr(got_q, "units"):
        c.require(got_q.units == ureg(out_unit).units, "returned unit is [prefix]E / [prefix]spectralirradiance",
                  mechanism="return-unit", got=str(got_q.units), want=out_unit)
        mag = np.asarray(got_q.magnitude, dtype=float)
    else:
        mag = np.asarray(got_q, dtype=float)
    c.require_close(mag, plain, "same numbers for unit-carrying and plain inputs", tol_rel=1e-11,
                    tol_abs=1e-300, mechanism="pint-vs-plain")
    c.require_close(mag, want, "unit-carrying input equals closed form", tol_rel=1e-11, tol_abs=1e-300,
                    mechanism="closed-form")
    c.nontrivial(I.size >= 2 and np.any(I != 0))
    c.note("unit", uname)


M.add("pint_quantities", gen_pint, chk_pint, weight=2, min_held=30)
