"""C03 — gamut membership is exact: in-gamut iff reproducible by in-bound intensities.

Events: booleans returned by in_hull_from_A / ReceptorEstimator.in_gamut / dreye.in_hull on
targets *constructed* at known signed depth.  Oracles: closed-form zonotope facet depth
(no LP, no qhull), HiGHS feasibility LP (soundness witnesses), projective LP / half-space
depth for chromatic membership.
"""
import numpy as np

from harness import runtime, oracles, gen
from harness.core import Monitor

DELTA = 1e-6          # indeterminate band half-width, relative to gamut extent
dreye = None
convex = None


def _setup():
    global dreye, convex
    dreye = runtime.load_dreye()
    import dreye.api.convex as convex_  # noqa
    convex = convex_


M = Monitor(
    pid="C03",
    setup=_setup,
    title="Gamut membership is exact: in-gamut iff reproducible by in-bound intensities",
    rule=("cases: one random system (2-5 receptors x 1-8 sources, lb zero/positive, ub finite/inf, K none/scalar/vector/matrix, "
          "baseline zero/scalar/vector) with ~20 targets constructed at known signed depth: interior captures, points on facet "
          "normals at +-{1e-3,1e-5,2e-6}*extent, gamut corners, far outside, below baseline. non-trivial = some target within "
          "1e-3*extent of the boundary or non-default K/baseline/lb or a fallback decision path. distinct = hash of rounded inputs"),
    budget={"quick": (1400, 70), "thorough": (60000, 1200)},
    anchors=[("dreye.api.convex", "in_hull"), ("dreye.api.convex", "in_hull_from_A"),
             ("dreye.api.convex", "convex_combination"), ("dreye.api.convex", "get_P_from_A"),
             ("dreye.api.convex", "all_combinations_of_bounds"),
             ("dreye.api.estimator", "ReceptorEstimator.in_hull")],
    deciding=["convex.in_hull", "convex.in_hull_from_A", "estimator.ReceptorEstimator.in_hull"],
    required_cells={"all": ["path=delaunay", "path=nnls-fallback", "path=affine-cone", "class=interior",
                            "class=facet-inside", "class=facet-outside", "class=corner", "class=far", "class=near-outside", "class=near-inside",
                            "K=matrix", "K=vector", "K=scalar", "K=none", "lb=pos", "lb=zero", "ub=inf", "ub=finite",
                            "normalized", "relative=False", "m=2", "target-rank=1", "sparse-A"]},
    required_events=["hull.path"],
    assumptions=["zonotope facet normals enumerated from (m-1)-subsets of columns (full row rank)",
                 "indeterminate band |depth| < 1e-6*extent: only soundness is asserted",
                 "HiGHS LP feasibility tolerance 1e-7 relative"],
)


def _paths(c):
    ps = sorted({f["path"] for k, f in c.events if k == "hull.path"})
    for p in ps:
        c.cell("path=" + p)
    return "+".join(ps) if ps else "unknown"


def _as_bool_array(c, got, k, what):
    got = np.asarray(got)
    ok = c.require(got.dtype == bool and got.shape == (k,), what + ": boolean array of shape (n_samples,)",
                   mechanism="result-shape", dtype=str(got.dtype), shape=list(got.shape), want=[k])
    return got if ok else None


# ------------------------------------------------------------------ clause 1: bounded, full-dimensional => exact

def gen_exact(rng, i):
    m = int(rng.integers(2, 6))
    n = int(rng.integers(m, min(8, m + 4) + 1))
    s = gen.make_system(rng, m=m, n=n, ubkind="finite")
    if i % 6 == 4 and n > m:
        # a degenerate source (pinned at lb == ub > 0, switched off, dark, or a copy of another source): several
        # combinations of bounds give the same corner capture
        gen.degenerate_source(rng, s, ["pinned", "pinned", "off", "dark", "twin"][rng.integers(5)])
    Mt, c0, lbv, ubv = gen.sys_arrays(s)
    Z = oracles.Zonotope(Mt, c0, lbv, ubv)
    T, cls = [], []
    for x in gen.interior_x(rng, lbv, ubv, 4):
        T.append(Mt @ x + c0); cls.append("interior")
    if len(Z.U):
        pts, nrm = Z.facet_points(rng, 6)
        for p, u in zip(pts, nrm):
            d = [1e-3, 1e-5, 2e-6][rng.integers(3)] * Z.extent
            T.append(p - d * u); cls.append("facet-inside")
            T.append(p + d * u); cls.append("facet-outside")
            if rng.integers(3) == 0:
                T.append(p + rng.uniform(0.1, 2) * Z.extent * u); cls.append("far")
    for x in gen.corner_x(rng, lbv, ubv, 2):
        T.append(Mt @ x + c0); cls.append("corner")
    T.append(Mt @ lbv + c0 - np.abs(rng.normal(0, 0.2, m)) * Z.extent - 0.01 * Z.extent); cls.append("below-baseline")
    T.append(Z.centre + rng.normal(0, 3, m) * Z.extent); cls.append("far")
    T = np.array(T)
    if i % 7 == 3:
        T = np.round(T)      # integer-valued targets (handed over as int64 by the harness); class labels become approximate
    s.update({"B": T, "classes": cls, "rank1": bool(rng.integers(4) == 0), "relative": bool(rng.integers(4) != 0),
              "registered": bool(rng.integers(5) == 0)})
    return s


def chk_exact(inp, c):
    rel = inp["relative"]
    s = dict(inp)
    if not rel:
        # absolute capture: gamut is {A x}; express the same constructed targets in absolute terms
        s["K"], s["baseline"], s["kkind"], s["basekind"] = None, None, "none", "zero"
    Mt, c0, lbv, ubv = gen.sys_arrays(s)
    Z = oracles.Zonotope(Mt, c0, lbv, ubv)
    if not Z.full_dim:
        c.unmet("gamut not full-dimensional")
    B = inp["B"]
    if not rel:
        # targets were built for the relative gamut; rebuild the same relative positions for the absolute one
        Mr, cr, _, _ = gen.sys_arrays(inp)
        Zr = oracles.Zonotope(Mr, cr, lbv, ubv)
        B = (B - Zr.centre) / Zr.extent * Z.extent + Z.centre
        c.cell("relative=False")
    c.cell(*gen.sys_cells(s))
    if s.get("degenerate"):
        c.cell("degenerate-source=" + s["degenerate"])
    for k in set(inp["classes"]):
        c.cell("class=" + k)
    depth = Z.depth(B) / Z.extent
    k = len(B)
    # function level
    # the function documents K as an ndarray: pass it the way the estimator does (at least 1-D)
    Karg = None if s["K"] is None else np.atleast_1d(s["K"])
    got_f = _as_bool_array(c, c.call(convex.in_hull_from_A, B.copy(), s["A"].copy(), s["lb"], s["ub"], K=Karg,
                                     baseline=s["baseline"], _where="in_hull_from_A"), k, "in_hull_from_A")
    path = _paths(c)
    est = gen.live_or_new(c, dreye, inp)
    got_e = _as_bool_array(c, gen.est_query(c, est, "in_gamut", B.copy(), registered=bool(inp.get("registered")), relative=rel,
                                            _where="ReceptorEstimator.in_gamut"),
                           k, "in_gamut")
    if rel is False and (inp["K"] is not None or inp["baseline"] is not None):
        c.nontrivial()
    for name, got in (("in_hull_from_A", got_f), ("in_gamut", got_e)):
        if got is None:
            continue
        inside, outside = depth >= DELTA, depth <= -DELTA
        bad_in = np.flatnonzero(inside & ~got)
        bad_out = np.flatnonzero(outside & got)
        c.require(bad_in.size == 0, f"{name}: targets strictly inside the gamut are accepted",
                  mechanism=f"strict-inside-rejected:{path}", idx=bad_in[:5], depth_rel=depth[bad_in[:5]],
                  classes=[inp["classes"][j] for j in bad_in[:5]])
        c.require(bad_out.size == 0, f"{name}: targets strictly outside the gamut are rejected",
                  mechanism=f"strict-outside-accepted:{path}", idx=bad_out[:5], depth_rel=depth[bad_out[:5]],
                  classes=[inp["classes"][j] for j in bad_out[:5]])
        # band: soundness only
        band = np.flatnonzero(~inside & ~outside & got)
        for j in band[:4]:
            t, _ = oracles.lp_feasible_residual(Mt, c0, lbv, ubv, B[j])
            if t is None:
                c.inconclusive("LP failed in band", abort=False)
                continue
            c.require(t <= 1e-6 * Z.extent, f"{name}: a target reported in-gamut is reproducible within the bounds",
                      mechanism=f"unsound-accept:{path}", residual_rel=t / Z.extent)
    if got_f is not None and got_e is not None:
        # same arguments, same code: the estimator method must be the function applied to its registered values
        dec = np.abs(depth) >= DELTA      # band targets (corners) are indeterminate in floating point
        c.require(np.array_equal(got_f[dec], got_e[dec]), "estimator method and function give the same answers",
                  mechanism="estimator-vs-function")
    # rank-1 target
    if inp["rank1"]:
        c.cell("target-rank=1")
        j = int(np.argmax(np.abs(depth)))
        g1 = c.call(est.in_gamut, B[j].copy(), relative=rel, _where="in_gamut(1-D target)")
        c.require(np.ndim(g1) == 0 and bool(g1) == bool(depth[j] > 0), "single 1-D target gives one correct boolean",
                  mechanism=f"rank1:{path}", got=str(g1), depth_rel=float(depth[j]))
    near = np.min(np.abs(depth)) <= 1e-3
    c.nontrivial(near or inp["kkind"] != "none" or inp["basekind"] != "zero" or inp["lbkind"] != "zero")
    c.note("depth_over_extent", depth[:6])
    c.note("answers", None if got_f is None else got_f[:6])
    c.note("path", path)
    c.margin("closest decided target to the band edge", DELTA, float(np.min(np.abs(depth)[np.abs(depth) >= DELTA])) if np.any(np.abs(depth) >= DELTA) else 1.0)


M.add("exact_bounded_fulldim", gen_exact, chk_exact, weight=3, min_held=100)


def gen_exact_rereg(rng, i):
    s = gen_exact(rng, i)
    s["rereg_seed"] = int(rng.integers(0, 2 ** 31 - 1))
    s["relative"] = True
    return s


def chk_exact_rereg(inp, c):
    """Membership is decided from the CURRENTLY registered values: query, change one registration on the same estimator,
    query again and judge the second answer against the new system."""
    gen.rereg_check(c, dreye, inp, lambda est: (est.in_gamut(inp["B"]), est.in_gamut(inp["B"], normalized=True)), chk_exact)


M.add("exact_after_reregistration", gen_exact_rereg, chk_exact_rereg, weight=1, min_held=30)


# ------------------------------------------------------------------ clause 2: every configuration: sound + complete on interiors

def gen_any(rng, i):
    mode = ["ubinf", "fewer-sources", "dichromat", "ubinf-lbpos"][i % 4]
    if mode == "ubinf":
        m = int(rng.integers(2, 6)); n = int(rng.integers(1, 9))
        s = gen.make_system(rng, m=m, n=n, ubkind="inf")
    elif mode == "ubinf-lbpos":
        m = int(rng.integers(2, 5)); n = int(rng.integers(1, 7))
        s = gen.make_system(rng, m=m, n=n, ubkind="inf", lbkind="pos")
    elif mode == "fewer-sources":
        m = int(rng.integers(3, 6)); n = int(rng.integers(1, m))
        s = gen.make_system(rng, m=m, n=n, ubkind="finite")
    else:
        m = 2; n = int(rng.integers(1, 6))
        s = gen.make_system(rng, m=m, n=n, ubkind=["finite", "inf"][rng.integers(2)])
    Mt, c0, lbv, ubv = gen.sys_arrays(s)
    X = gen.interior_x(rng, lbv, ubv, 5)
    scale = float(np.max(np.abs(X @ Mt.T + c0))) + 1.0
    T = list(X @ Mt.T + c0)
    cls = ["interior"] * 5
    for _ in range(3):
        T.append(T[rng.integers(5)] + rng.normal(0, 0.3, m) * scale); cls.append("random")
    T.append(c0 + Mt @ lbv - 0.05 * scale * np.abs(rng.normal(1, 0.3, m))); cls.append("below-baseline")
    # near-boundary targets (LP-oracle bisection between an interior capture and an outside point)
    for tgt, k in gen.near_boundary_targets(rng, Mt, c0, lbv, ubv, T[:5], scale, 3):
        T.append(tgt); cls.append(k)
    s.update({"B": np.array(T), "X": X, "classes": cls, "mode": mode, "relative": bool(rng.integers(5) != 0)})
    return s


def chk_any(inp, c):
    rel = inp["relative"]
    s = dict(inp)
    if not rel:
        s["K"], s["baseline"], s["kkind"], s["basekind"] = None, None, "none", "zero"
        c.cell("relative=False")
    Mt, c0, lbv, ubv = gen.sys_arrays(s)
    m, n = Mt.shape
    B = inp["B"].copy()
    ni = len(inp["X"])
    B[:ni] = inp["X"] @ Mt.T + c0          # interiors of the configuration actually queried
    scale = float(np.max(np.abs(B[:ni]))) + 1e-300
    c.cell(*gen.sys_cells(s), "mode=" + inp["mode"])
    for k in set(inp["classes"]):
        c.cell("class=" + k)
    est = gen.live_or_new(c, dreye, inp)
    got = _as_bool_array(c, c.call(est.in_gamut, B.copy(), relative=rel, _where="ReceptorEstimator.in_gamut"),
                         len(B), "in_gamut")
    path = _paths(c)
    if got is None:
        return
    rej = np.flatnonzero(~got[:ni])
    c.require(rej.size == 0, "every capture produced by intensities strictly inside the bounds is reported in-gamut",
              mechanism=f"interior-rejected:{path}", n_rejected=int(rej.size), of=ni,
              x=inp["X"][rej[:2]], b=B[rej[:2]])
    for j in np.flatnonzero(got)[:14]:
        t, _ = oracles.lp_feasible_residual(Mt, c0, lbv, ubv, B[j])
        if t is None:
            c.inconclusive("LP failed", abort=False)
            continue
        c.margin("LP residual of accepted targets", t / scale, 1e-6)
        c.require(t <= 1e-6 * scale, "a target reported in-gamut is reproducible within the bounds",
                  mechanism=f"unsound-accept:{path}", residual_rel=t / scale, cls=inp["classes"][j], b=B[j])
    c.nontrivial()
    c.note("answers", got)
    c.note("path", path)


M.add("sound_complete_any_config", gen_any, chk_any, weight=2, min_held=60)


# ------------------------------------------------------------------ clause 3: chromatic (L1-normalised) membership

def _chroma_coords(P):
    """Affine coordinates of the L1-normalised rows on the simplex plane (drop last coordinate)."""
    Pn = P / P.sum(axis=1, keepdims=True)
    return Pn[:, :-1]


def _chroma_depth(Pc, q):
    """Signed depth of q in conv(Pc) (>0 inside), normalised by the hull extent; dimension d=m-1."""
    d = Pc.shape[1]
    ext = float(np.max(Pc.max(0) - Pc.min(0)))
    if d == 1:
        return float(min(q[0] - Pc.min(), Pc.max() - q[0])) / ext, ext
    from scipy.spatial import ConvexHull
    hull = ConvexHull(Pc)
    return float(-np.max(hull.equations[:, :-1] @ q + hull.equations[:, -1])) / ext, ext


def gen_chroma(rng, i):
    m = int(rng.integers(2, 5)) if i % 3 else 2
    n = int(rng.integers(m, min(8, m + 3) + 1))
    if i % 2:
        # sparse capture matrix, dark lower corner (lb = 0, zero baseline): gamut corners with zero components
        s = gen.make_system(rng, m=m, n=n, ubkind="finite", kkind=["none", "scalar", "vector"][rng.integers(3)],
                            sparse=True, lbkind="zero", basekind="zero")
        s["sparse"] = True
    else:
        s = gen.make_system(rng, m=m, n=n, ubkind="finite", kkind=["none", "scalar", "vector"][rng.integers(3)])
    Mt, c0, lbv, ubv = gen.sys_arrays(s)
    X = gen.interior_x(rng, lbv, ubv, 5, margin=0.05)
    lam = np.exp(rng.uniform(-2, 2, 5))
    T = list((X @ Mt.T + c0) * lam[:, None])
    cls = ["inside"] * 5
    for _ in range(4):
        e = np.zeros(m); e[rng.integers(m)] = 1.0
        T.append((0.9 * e + 0.1 * rng.dirichlet(np.ones(m))) * np.exp(rng.uniform(0, 3))); cls.append("near-simplex-corner")
    for _ in range(3):
        T.append(rng.dirichlet(np.ones(m)) * np.exp(rng.uniform(0, 3))); cls.append("random")
    # chromaticities just inside single-source corners of the chromatic gamut (mostly one source, a little of the rest)
    for _ in range(3):
        x = lbv + 0.02 * (ubv - lbv) * rng.random(n)
        j = int(rng.integers(n))
        x[j] = lbv[j] + (ubv[j] - lbv[j]) * rng.uniform(0.5, 0.95)
        T.append((Mt @ x + c0) * np.exp(rng.uniform(-1, 1))); cls.append("near-source-corner")
    s.update({"B": np.array(T), "X": X, "lam": lam, "classes": cls, "relative": bool(rng.integers(4) != 0)})
    return s


def chk_chroma(inp, c):
    rel = inp["relative"]
    s = dict(inp)
    if not rel:
        s["K"], s["baseline"], s["kkind"], s["basekind"] = None, None, "none", "zero"
        c.cell("relative=False")
    Mt, c0, lbv, ubv = gen.sys_arrays(s)
    m, n = Mt.shape
    c.cell(*gen.sys_cells(s), "normalized")
    if inp.get("sparse"):
        c.cell("sparse-A")
    # oracle-side corner enumeration
    corners = np.array([[ubv[j] if (k >> j) & 1 else lbv[j] for j in range(n)] for k in range(2 ** n)])
    P = corners @ Mt.T + c0
    P = P[np.abs(P).sum(axis=1) > 0]
    if np.any(P < -1e-12) or np.any(P.sum(axis=1) <= 0):
        c.unmet("gamut corners not non-negative (chromaticity undefined)")
    B = inp["B"].copy()
    B[:len(inp["X"])] = (inp["X"] @ Mt.T + c0) * inp["lam"][:, None]   # insides of the configuration queried
    Pc = _chroma_coords(P)
    if np.linalg.matrix_rank(Pc - Pc.mean(0), tol=1e-9) < m - 1:
        c.unmet("chromatic gamut not full-dimensional")
    est = gen.live_or_new(c, dreye, inp)
    got = _as_bool_array(c, c.call(est.in_gamut, B.copy(), relative=rel, normalized=True,
                                   _where="ReceptorEstimator.in_gamut(normalized=True)"), len(B), "in_gamut(normalized)")
    path = _paths(c)
    if got is None:
        return
    Bc = _chroma_coords(B)
    deps = []
    for j in range(len(B)):
        dep, ext = _chroma_depth(Pc, Bc[j])
        deps.append(dep)
        if dep >= DELTA:
            c.require(bool(got[j]), "a chromaticity strictly inside the chromatic gamut is accepted",
                      mechanism=f"chroma-inside-rejected:{path}", depth_rel=dep, cls=inp["classes"][j])
        elif dep <= -DELTA:
            c.require(not bool(got[j]), "a chromaticity strictly outside the chromatic gamut is rejected",
                      mechanism=f"chroma-outside-accepted:{path}", depth_rel=dep, cls=inp["classes"][j])
        if got[j]:
            t = oracles.lp_chromatic_member(P, B[j] / B[j].sum())
            if t is None:
                c.inconclusive("projective LP failed", abort=False)
            else:
                c.require(t <= 1e-6, "accepted chromaticity is a convex combination of the gamut's corner chromaticities",
                          mechanism=f"chroma-unsound-accept:{path}", residual=t)
    c.cell("class=chroma-inside" if any(d >= DELTA for d in deps) else "class=chroma-none-inside")
    c.nontrivial()
    c.note("chromatic_depth", deps[:6])
    c.note("answers", got[:6])


M.add("chromatic_membership", gen_chroma, chk_chroma, weight=1, min_held=30)


# ------------------------------------------------------------------ clause 4: dreye.in_hull on explicit point clouds

def gen_cloud(rng, i):
    d = int(rng.integers(2, 5))
    k = int(rng.integers(d + 2, 30))
    P = rng.normal(0, 1, (k, d)) * np.exp(rng.uniform(-1, 2)) + rng.normal(0, 3, d)
    lam = rng.dirichlet(np.ones(k), 6)
    inside = lam @ P
    cen = P.mean(0)
    far = cen + (P[rng.integers(k, size=4)] - cen) * rng.uniform(2.0, 5.0, (4, 1))
    return {"P": P, "inside": inside, "far": far}


def chk_cloud(inp, c):
    P, inside, far = inp["P"], inp["inside"], inp["far"]
    c.cell("dreye.in_hull", f"d={P.shape[1]}")
    g_in = np.asarray(c.call(dreye.in_hull, P.copy(), inside.copy(), _where="dreye.in_hull"))
    g_far = np.asarray(c.call(dreye.in_hull, P.copy(), far.copy(), _where="dreye.in_hull"))
    path = _paths(c)
    ext = float(np.max(P.max(0) - P.min(0)))
    cen = P.mean(0)
    for j, b in enumerate(inside):
        # assert only with a clear interior margin: the point pushed 1e-4 further from the centroid is still inside
        t = oracles.lp_in_hull_residual(P, cen + (b - cen) * (1 + 1e-4))
        if t is None:
            c.inconclusive("LP failed", abort=False)
            continue
        if t <= 1e-10 * ext:
            c.require(bool(g_in[j]), "a point strictly inside the hull of the cloud is accepted",
                      mechanism=f"cloud-inside-rejected:{path}", residual=t)
    for j, b in enumerate(far):
        t = oracles.lp_in_hull_residual(P, b)
        if t is None:
            c.inconclusive("LP failed", abort=False)
            continue
        if t > 1e-6 * ext:
            c.require(not bool(g_far[j]), "a point outside the hull (LP residual > 0) is rejected",
                      mechanism=f"cloud-outside-accepted:{path}", residual_rel=t / ext)
    c.nontrivial()
    c.note("answers", {"inside": g_in, "far": g_far})


M.add("explicit_cloud", gen_cloud, chk_cloud, weight=1, min_held=30)
