"""C05 — samples are fitted independently; batch size never changes or breaks a result.

Relational (twin-run) monitor: the same fitting call is executed with batch_size = 1 (reference)
and with every other batch size / 'full' / after row edits, and the results are compared row by
row.  The (N, batch_size) grid is enumerated exhaustively; row contents are sampled.
"""
import numpy as np

from harness import runtime, oracles, gen
from harness.core import Monitor

dreye = None
cp = None

PROCS = ["gaussian", "gaussian-tight", "poisson", "excitation", "minimize_variance"]
NMAX = {"quick": 5, "thorough": 10}


def _setup():
    global dreye, cp
    dreye = runtime.load_dreye()
    import cvxpy as cp_
    cp = cp_


def grid(tier):
    g = []
    for N in range(1, NMAX[tier] + 1):
        for bs in list(range(2, N + 3)) + ["full"]:
            g.append((N, bs))
    return g


def n_enum(tier):
    return len(grid(tier)) * len(PROCS) * 2


M = Monitor(
    pid="C05",
    setup=_setup,
    exhaustive_claim="every (N, batch_size) pair with N in 1..5 (quick) / 1..10 (thorough), batch_size in 2..N+2 and 'full', for each of the five procedures x {plain, baseline+weights}; the system and target values of each grid point are sampled",
    title="Samples are fitted independently; batch size never changes or breaks a result",
    rule=("enumeration: every (N, batch_size) with N in 1..5 (quick) / 1..10 (thorough), batch_size in 2..N+2 and 'full', for "
          "each procedure {gaussian default, gaussian high-accuracy, poisson, excitation, minimize_variance} x {plain, "
          "baseline+weights}; each grid point gets a freshly sampled well-scaled system and N pairwise distinct targets "
          "mixing in- and out-of-gamut rows, compared with the batch_size=1 run of the same code. Row edits (permute, "
          "duplicate, drop, append, per-sample weights) are sampled. non-trivial = batch_size != 1 and rows pairwise distinct"),
    budget={"quick": (n_enum("quick") + 130, 100), "thorough": (n_enum("thorough") * 3 + 4000, 1500)},
    anchors=[("dreye.api.optimize.parallel", "batched_iteration"), ("dreye.api.optimize.parallel", "ravel_last_iarrays"),
             ("dreye.api.optimize.parallel", "diagonal_stack"), ("dreye.api.optimize.parallel", "concat"),
             ("dreye.api.optimize.lsq_linear", "_solve_problem"), ("dreye.api.optimize.lsq_linear", "lsq_linear_minimize"),
             ("dreye.api.optimize.lsq_linear", "_prepare_variables"), ("dreye.api.optimize.utils", "get_batch_size")],
    deciding=["parallel.batched_iteration", "parallel.ravel_last_iarrays", "lsq_linear._solve_problem",
              "lsq_linear.lsq_linear_minimize", "utils.get_batch_size"],
    required_cells={"all": ["proc=gaussian", "proc=gaussian-tight", "proc=poisson", "proc=excitation",
                            "proc=minimize_variance", "bs=full", "bs>N", "bs-divides", "bs-nondividing",
                            "hook:padded-last-batch", "edit=permute", "edit=duplicate", "edit=drop", "edit=append",
                            "edit=weights-travel"]},
    required_events=["solve.status"],
    assumptions=["reference = the same code with batch_size=1 (absolute optimality is C04/C07/C09)",
                 "comparison tolerance per procedure = 2x the solver accuracy observed for that procedure (stated in evidence)"],
)

# comparison tolerance on B_pred (relative to max(1,|B|)) per procedure: two runs of the same solver on the same row
L1_EPS = 1e-2          # l1_eps passed with the per-row L1 requests of the minimize_variance grid points
TOL_X_MV = 2e-3        # |x(bs) - x(1)| relative to the bound range for the unique variance optimum (worst seen 7e-5)
TOL = {"gaussian": 4e-2, "gaussian-tight": 1e-5, "poisson": 2e-3, "excitation": 3e-2, "minimize_variance": 2e-3}


def _targets(rng, Mt, c0, lbv, ubv, N, nonneg):
    m = Mt.shape[0]
    T = []
    for r in range(N):
        x = gen.interior_x(rng, lbv, ubv, 1, margin=0.05)[0]
        b = Mt @ x + c0
        if r % 2 == 1:   # out of gamut
            if nonneg:
                b = b * np.exp(rng.normal(0, 0.7, m))
            else:
                b = b + rng.normal(0, 0.4, m) * float(np.max(np.abs(b)))
        T.append(np.clip(b, 0 if nonneg else -100, 100))
    B = np.array(T)
    # pairwise distinct rows so that misalignment is visible
    for r in range(N):
        B[r] = B[r] * (1 + 0.01 * r)
    return B


def _system(rng, proc, rich):
    nonneg = proc in ("poisson", "excitation")
    kk = ["none", "scalar", "vector"][rng.integers(3)] if rich else "none"
    bk = ["scalar", "vector"][rng.integers(2)] if rich else "zero"
    under = bool(rng.integers(2))
    if proc == "minimize_variance":
        under = True
    s = gen.make_system(rng, mrange=(2, 4), nrange=(2, 6), under=under, ubkind="finite", kkind=kk, basekind=bk)
    return s, nonneg


def _decode(i, tier):
    g = grid(tier)
    per = len(PROCS) * 2
    N, bs = g[(i // per) % len(g)]
    proc = PROCS[(i % per) // 2]
    rich = bool(i % 2)
    return N, bs, proc, rich


def make_gen(tier):
    def gen_(rng, i):
        N, bs, proc, rich = _decode(i, tier)
        s, nonneg = _system(rng, proc, rich)
        Mt, c0, lbv, ubv = gen.sys_arrays(s)
        B = _targets(rng, Mt, c0, lbv, ubv, N, nonneg)
        W = rng.uniform(0.5, 2, Mt.shape[0]) if (rich and proc != "excitation") else None
        s.update({"B": B, "N": N, "bs": bs, "proc": proc, "rich": rich, "W": W})
        return s
    return gen_


def _kwargs(proc):
    if proc == "gaussian-tight":
        return dict(solver=cp.CLARABEL, tol_gap_abs=1e-10, tol_gap_rel=1e-10, tol_feas=1e-10)
    if proc == "minimize_variance":
        # high accuracy: the intensities of the (unique) variance optimum are compared between batch sizes, and at the
        # solver's default accuracy they differ by up to 5e-3 of the bound range between two runs (flat objective)
        return dict(solver=cp.CLARABEL, tol_gap_abs=1e-9, tol_gap_rel=1e-9, tol_feas=1e-9)
    return {}


class _Caller:
    """c.call for the runs under judgement; for the batch_size=1 reference a failure is not this
    property's business (C04/C07/C09 judge it): the case is 'unmet'."""

    def __init__(self, c, ref):
        self.c, self.ref = c, ref

    def call(self, fn, *a, _where=None, **k):
        ok, res = self.c.try_call(fn, *a, **k)
        if ok:
            return res
        if self.ref:
            self.c.unmet(f"reference run with batch_size=1 failed: {type(res).__name__}: {str(res)[:60]}")
        name = type(res).__name__
        if name == "SolverError" and "minimize_variance" in (_where or ""):
            # numerical failure inside the conic solver (not a formulation error): one mechanism key
            self.c.fail(f"{_where} raised SolverError: {str(res)[:100]}", mechanism="solver-failure:minimize_variance")
        import traceback
        tb = traceback.extract_tb(res.__traceback__)
        loc = f"{tb[-1].filename.split('/')[-1]}:{tb[-1].name}" if tb else "?"
        self.c.fail(f"{_where} raised {name}: {str(res)[:160]}", mechanism=f"raise:{_where}:{name}:{loc}",
                    traceback=[f"{f.filename}:{f.lineno}:{f.name}" for f in tb[-5:]])


def _run(c, est, proc, B, bs, W=None, where="", ref=False, L1=None):
    c = _Caller(c, ref)
    kw = _kwargs(proc)
    if L1 is not None:
        kw.update(L1=np.array(L1, float), l1_eps=L1_EPS)
    if proc in ("gaussian", "gaussian-tight", "poisson", "excitation"):
        model = "gaussian" if proc.startswith("gaussian") else proc
        if W is not None and np.ndim(W) == 2:
            c.call(est.register_targets, B.copy(), W=W.copy(), _where="register_targets")
            c.call(est.fit, model=model, batch_size=bs, _where=f"fit(model={model}, batch_size={where or bs})", **kw)
            return np.asarray(est.X, float), np.asarray(est.B, float)
        out = c.call(est.fit, B.copy(), model=model, batch_size=bs,
                     _where=f"fit(model={model}, batch_size={where or 'bs'})", **kw)
        return np.asarray(out[0], float), np.asarray(out[1], float)
    out = c.call(est.minimize_variance, B.copy(), batch_size=bs, l2_eps=1e-3,
                 _where=f"minimize_variance(batch_size={where or 'bs'})", **kw)
    return np.asarray(out[0], float), np.asarray(out[1], float)


def _bs_class(N, bs):
    if bs == "full":
        return "full"
    if bs > N:
        return ">N"
    return "divides" if N % bs == 0 else "nondividing"


def chk_grid(inp, c):
    Mt, c0, lbv, ubv = gen.sys_arrays(inp)
    m, n = Mt.shape
    B, N, bs, proc = inp["B"], inp["N"], inp["bs"], inp["proc"]
    cls = _bs_class(N, bs)
    c.cell("proc=" + proc, f"N={N}", "bs=full" if cls == "full" else ("bs>N" if cls == ">N" else "bs-" + cls),
           "rich" if inp["rich"] else "plain", *gen.sys_cells(inp))
    est = c.call(gen.make_estimator, dreye, inp, w=(1.0 if inp["W"] is None else inp["W"]),
                 _where="ReceptorEstimator+register_system")
    Xr, Br = _run(c, est, proc, B, 1, None, "1", ref=True)
    if not (Xr.shape == (N, n) and Br.shape == (N, m) and np.all(np.isfinite(Br))):
        c.inconclusive("reference run (batch_size=1) did not produce a usable result")
    L1 = None
    if proc == "minimize_variance" and inp["rich"]:
        # per-row total-intensity request (a window around 0.8x..1.2x the unconstrained totals, feasible for each row
        # alone): the per-sample L1 constraint of a batch must bind each sample to ITS OWN request
        c.cell("L1=rows")
        from scipy.optimize import linprog
        L1 = np.sum(Xr, axis=1)
        for r in range(N):
            # a total that some in-bound vector with the SAME predicted capture attains (so the request is compatible with
            # the error bound): between the reference total and the extreme total over the fibre of its prediction
            sgn = -1.0 if r % 2 else 1.0
            res = linprog(sgn * np.ones(n), A_eq=Mt, b_eq=Mt @ Xr[r], bounds=list(zip(lbv, ubv)), method="highs")
            if res.status == 0:
                fr = 0.25 + 0.5 * ((r * 0.61803398875) % 1.0)
                L1[r] = (1 - fr) * L1[r] + fr * float(np.sum(res.x))
        Xr, Br = _run(c, est, proc, B, 1, None, "1", ref=True, L1=L1)
        if not (Xr.shape == (N, n) and Br.shape == (N, m) and np.all(np.isfinite(Br))):
            c.inconclusive("reference run (batch_size=1, with L1) did not produce a usable result")
    runtime.EVENTS.clear()
    Xb, Bb = _run(c, est, proc, B, bs, None, f"{cls}", L1=L1)
    ev = [f for k, f in c.events if k == "solve.status" and f.get("where") in ("_solve_problem", "lsq_linear_minimize")]
    if any(f.get("padded") for f in ev):
        c.cell("hook:padded-last-batch")
    scale = max(1.0, float(np.max(np.abs(B))))
    tol = TOL[proc] * scale
    if not c.require(Xb.shape == (N, n) and Bb.shape == (N, m), "batched result has one row per target",
                     mechanism=f"batch-shape:{proc}", X=list(Xb.shape), B=list(Bb.shape)):
        return
    c.require(np.all(np.isfinite(Xb)) and np.all(np.isfinite(Bb)), "batched result finite", mechanism=f"batch-nonfinite:{proc}")
    dev = np.max(np.abs(Bb - Br), axis=1)
    c.margin(f"{proc}: |B_pred(bs) - B_pred(1)| / tol", float(np.max(dev)), tol)
    c.require(np.all(dev <= tol), "every batch size returns the same predicted captures as batch size one",
              mechanism=f"batch-mismatch:{proc}", bs=str(bs), N=N, bs_class=cls, worst_rows=np.argsort(-dev)[:3], dev=np.sort(dev)[::-1][:3],
              tol=tol)
    if n <= m and np.linalg.matrix_rank(Mt) == n:
        smin = float(np.linalg.svd(Mt, compute_uv=False)[-1])
        dx = np.max(np.abs(Xb - Xr), axis=1)
        c.require(np.all(dx <= 10 * tol / smin + 1e-9), "unique optimum: same intensities as with batch size one",
                  mechanism=f"batch-mismatch-X:{proc}", dev=float(np.max(dx)))
    if proc == "minimize_variance":
        if L1 is not None:
            tot = np.sum(Xb, axis=1)
            c.margin("minimize_variance: |sum x - L1| / l1_eps", float(np.max(np.abs(tot - L1))), L1_EPS * 1.05 + 1e-6)
            c.require(np.all(np.abs(tot - L1) <= L1_EPS * 1.05 + 1e-6),
                      "with a batch every sample meets its own total-intensity request (within l1_eps)",
                      mechanism="batch-l1-request:minimize_variance", worst=float(np.max(np.abs(tot - L1))), bs=str(bs), N=N)
        if np.all(np.abs(Mt) > 1e-9):
            # strictly convex variance objective (all variances positive): the optimum is unique GIVEN the error bound
            # "error of a preliminary ordinary fit + l2_eps".  That preliminary fit is made at the default solver accuracy
            # and its error differs by up to ~1e-4 between two runs; the variance optimum sits on the bound and moves with
            # it (5e-3 of the range seen for a bound shift of 7e-5).  Rows are compared where both runs ended on the
            # same bound (realised errors equal within 1e-6); the others are counted, not judged.
            wv = np.ones(m) if inp["W"] is None else np.asarray(inp["W"], float)
            er = np.linalg.norm((Br - B) * wv, axis=1)
            eb = np.linalg.norm((Bb - B) * wv, axis=1)
            same_bound = np.abs(er - eb) <= 1e-6 * (1.0 + scale)
            c.cell("mv-x-compared" if np.any(same_bound) else "mv-x-not-comparable")
            if np.any(same_bound):
                dx = np.max(np.abs(Xb - Xr) / (ubv - lbv), axis=1)[same_bound]
                c.margin("minimize_variance: |x(bs) - x(1)| / range / tol_x", float(np.max(dx)), TOL_X_MV)
                c.require(np.all(dx <= TOL_X_MV), "unique variance optimum: same intensities as with batch size one",
                          mechanism="batch-mismatch-X:minimize_variance", dev=float(np.max(dx)), bs=str(bs), N=N,
                          rows_compared=int(np.sum(same_bound)))
    c.nontrivial(N >= 2)
    c.note("grid_point", {"N": N, "batch_size": str(bs), "proc": proc})
    c.note("max_dev_vs_batch1", float(np.max(dev)))
    c.note("batches", [{k: f.get(k) for k in ("batch_idx", "padded", "status")} for f in ev][:6])


def _add_grid(tier):
    M.add(f"grid_{tier}", make_gen(tier), chk_grid, weight=3 if tier == "quick" else 3,
          min_held=50, enumerated=lambda t, tier=tier: n_enum(tier), tiers=(tier,))


_add_grid("quick")
_add_grid("thorough")


# ------------------------------------------------------------------ row edits

EDITS = ["permute", "duplicate", "drop", "append", "weights-travel", "tied-weights"]


def gen_edit(rng, i):
    proc = ["gaussian-tight", "gaussian-tight", "poisson", "minimize_variance", "gaussian"][i % 5]
    s, nonneg = _system(rng, proc, bool(rng.integers(2)))
    Mt, c0, lbv, ubv = gen.sys_arrays(s)
    N = int(rng.integers(3, 7))
    B = _targets(rng, Mt, c0, lbv, ubv, N, nonneg)
    edit = EDITS[(i // 5) % len(EDITS)]
    if edit in ("weights-travel", "tied-weights") and proc in ("minimize_variance",):
        proc = "gaussian-tight"
    bs = [1, 2, N - 1, "full"][rng.integers(4)]
    s.update({"B": B, "N": N, "bs": bs, "proc": proc, "edit": edit, "perm": rng.permutation(N),
              "j": int(rng.integers(N)), "extra": _targets(rng, Mt, c0, lbv, ubv, 1, nonneg)[0] * 1.07,
              "Ws": rng.uniform(0.5, 2.0, (N, Mt.shape[0])), "W": None})
    return s


def chk_edit(inp, c):
    Mt, c0, lbv, ubv = gen.sys_arrays(inp)
    m, n = Mt.shape
    B, N, bs, proc, edit = inp["B"], inp["N"], inp["bs"], inp["proc"], inp["edit"]
    c.cell("proc=" + proc, "edit=" + edit, f"editbs={bs}")
    est = c.call(gen.make_estimator, dreye, inp, _where="ReceptorEstimator+register_system")
    Ws = inp["Ws"] if edit in ("weights-travel", "tied-weights") else None
    if edit == "tied-weights":
        # consecutive rows with the SAME (out-of-gamut) target but different per-sample weights: each row's result is
        # what that row gets when fitted alone with its own weights
        B = B.copy()
        B[2] = B[1]
        if N >= 5:
            B[4] = B[1]
    X0, B0 = _run(c, est, proc, B, bs, Ws, "orig")
    scale = max(1.0, float(np.max(np.abs(B))))
    tol = TOL[proc] * scale
    if edit == "tied-weights":
        alone = np.array([_run(c, est, proc, B[r:r + 1], 1, Ws[r:r + 1], "row alone")[1][0] for r in range(N)])
        dev = np.max(np.abs(B0 - alone), axis=1)
        c.margin(f"{proc}: row-edit deviation / tol", float(np.max(dev)), tol)
        c.require(np.all(dev <= tol), "rows with equal targets but different weights are fitted with their own weights",
                  mechanism=f"row-dependence:{edit}:{proc}", dev=np.sort(dev)[::-1][:3], tol=tol, bs=str(bs))
        c.nontrivial()
        c.note("edit", {"edit": edit, "proc": proc, "bs": str(bs), "max_dev": float(np.max(dev))})
        return
    if edit in ("permute", "weights-travel"):
        p = inp["perm"]
        X1, B1 = _run(c, est, proc, B[p], bs, None if Ws is None else Ws[p], "permuted")
        want, got, what = B0[p], B1, "permuting target rows (with their weights) permutes the result rows"
    elif edit == "duplicate":
        j = inp["j"]
        B2 = np.vstack([B, B[j:j + 1]])
        X1, B1 = _run(c, est, proc, B2, bs, None, "duplicated")
        want, got, what = np.vstack([B0, B0[j:j + 1]]), B1, "duplicating a row duplicates its result and leaves the others untouched"
    elif edit == "drop":
        j = inp["j"]
        keep = np.arange(N) != j
        X1, B1 = _run(c, est, proc, B[keep], bs if bs != N - 1 else max(1, N - 2), None, "dropped")
        want, got, what = B0[keep], B1, "dropping a row leaves the other result rows untouched"
    else:
        B2 = np.vstack([B, inp["extra"][None]])
        X1, B1 = _run(c, est, proc, B2, bs, None, "appended")
        want, got, what = B0, B1[:N], "appending a row leaves the existing result rows untouched"
        c.require(B1.shape[0] == N + 1, "appended row gets a result row", mechanism=f"edit-shape:{edit}")
    if not c.require(got.shape == want.shape, "edited call returns one row per target", mechanism=f"edit-shape:{edit}",
                     got=list(got.shape), want=list(want.shape)):
        return
    dev = np.max(np.abs(got - want), axis=1)
    c.margin(f"{proc}: row-edit deviation / tol", float(np.max(dev)), tol)
    c.require(np.all(dev <= tol), what, mechanism=f"row-dependence:{edit}:{proc}", dev=np.sort(dev)[::-1][:3], tol=tol, bs=str(bs))
    c.nontrivial()
    c.note("edit", {"edit": edit, "proc": proc, "bs": str(bs), "max_dev": float(np.max(dev))})


M.add("row_edits", gen_edit, chk_edit, weight=1, min_held=40)
