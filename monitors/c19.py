"""C19 — domain equalisation interpolates onto the exact overlap at the coarsest resolution.

Events: every (domain, arrays) pair returned by dreye.equalize_domains and every value returned by
ReceptorEstimator.capture(signals, domain=...) / register_system(sources, domain=...) made by the
workload.  Oracle (no dreye code): overlap and coarsest mean step in exact rational arithmetic
(mean step of a domain = (max - min) / (n - 1)), np.linspace grid, np.interp of the sorted
(domain, value) pairs along the stated axis, trapezoid-weight capture (harness.oracles).

Accept / reject rule judged:  overlap <= 0  -> must be rejected (ValueError);
overlap >= coarsest step -> must be answered; 0 < overlap < step (no step of the coarsest size
fits) -> a rejection or an answer that fulfils every postcondition are both accepted; inputs whose
float evaluation is within 1e-9 of the overlap == step boundary form an indeterminate band, unless
all the arithmetic involved is exact (dyadic grids) in which case the boundary itself is judged.
"""
from fractions import Fraction
import math

import numpy as np

from harness import runtime, oracles
from harness.core import Monitor, UnderTestRaised

dreye = None

BAND = 1e-9          # relative half-width of the indeterminate band around decision boundaries
TOL_ENDS = 1e-12     # start / end of the new domain, relative to max(|min|, |max|, overlap)
TOL_INTERP = 1e-10   # interpolated values, relative to max |array|
TOL_CAPTURE = 1e-10  # capture, relative to the abs-sum magnitude
EPS = float(np.finfo(float).eps)


def _setup():
    global dreye
    dreye = runtime.load_dreye()


LAYOUTS_OK = ["identical", "same", "nested", "partial"]
LAYOUTS_EDGE = ["touching", "disjoint", "substep", "exactfit", "tie", "nearfit"]
TEXTURES = ["uniform", "nonuniform", "unsorted", "mixed"]

M = Monitor(
    pid="C19",
    setup=_setup,
    decoy=True,
    title="Domain equalisation interpolates onto the exact overlap at coarsest resolution",
    rule=("cases: 2-4 domains with layout {identical, same range, nested, partially overlapping, touching at one "
          "point, disjoint, overlap smaller than the coarsest step, overlap an exact multiple / half-multiple of the "
          "coarsest step on dyadic grids, overlap within 1e-13..1e-4 of the coarsest step} x texture {uniform, "
          "non-uniform (random / two-scale / log), unsorted (permuted / reversed), integer dtype}; arrays of rank 1-3 "
          "with the domain on any axis, axes given as None / int / list (incl. negative), stack_axis / concatenate; "
          "estimator captures with a foreign signal domain.  non-trivial = domains differ, the overlap is proper "
          "(call answered) and (some array has rank >= 2 or some domain is unsorted or non-uniform), or the case "
          "decides a rejection of non-overlapping domains, or identical domains (>= 3 points) with an array of "
          "rank >= 2.  distinct = hash of rounded inputs"),
    budget={"quick": (24000, 40), "thorough": (1500000, 900)},
    anchors=[("dreye.api.domain", "equalize_domains"), ("dreye.api.domain", "_interpolate_domains"),
             ("dreye.api.domain", "_get_domain_bounds_and_diff"), ("dreye.api.domain", "_is_equal_domains"),
             ("dreye.api.domain", "_stack_or_concatenate"), ("dreye.api.utils", "arange_with_interval"),
             ("dreye.api.estimator", "ReceptorEstimator._check_domain"),
             ("dreye.api.estimator", "ReceptorEstimator.capture"),
             ("dreye.api.estimator", "ReceptorEstimator.register_system")],
    deciding=["domain.equalize_domains", "domain._interpolate_domains", "domain._get_domain_bounds_and_diff",
              "utils.arange_with_interval", "estimator.ReceptorEstimator._check_domain"],
    required_cells={"all": ["layout=identical", "layout=same", "layout=nested", "layout=partial", "layout=touching",
                            "layout=disjoint", "layout=substep", "layout=exactfit", "layout=tie", "layout=nearfit",
                            "texture=uniform", "texture=nonuniform", "texture=unsorted",
                            "n_domains=2", "n_domains=3", "n_domains=4",
                            "rank=1", "rank=2", "rank=3", "axis=first", "axis=middle", "axis=last",
                            "axes=None", "axes=int", "axes=list", "axes=negative",
                            "stack", "concatenate", "no-stack", "accepted", "rejected",
                            "boundary:overlap==step-accepted", "boundary:indeterminate-band",
                            "capture:equalised", "capture:own-domain", "capture:scalar-step", "capture:rejected",
                            "capture:register_system"]},
    assumptions=["domains have >= 2 distinct finite points each; arrays finite",
                 "mean step of a domain = (max - min)/(n - 1) (telescoped mean of the sorted differences)",
                 "'closest step that fits' = overlap/k with k = round(overlap/step); in the narrow window where "
                 "rounding the interval count and minimising |overlap/k - step| disagree both k are accepted",
                 "0 < overlap < coarsest step: rejection or a valid two-point answer are both accepted",
                 "float evaluation within 1e-9 (relative) of a decision boundary is indeterminate unless the "
                 "arithmetic is exact (dyadic grids)",
                 "rejection = ValueError"],
)


# ====================================================================== oracle

def _F(x):
    return Fraction(float(x))


def _pow2(n):
    return n > 0 and (n & (n - 1)) == 0


def exact_arith(domains):
    """True when min/max/diff/mean of every domain are computed without rounding in float64:
    all values are multiples of 1/64 below 2**30 and every mean step is such a dyadic number."""
    for d in domains:
        d = np.asarray(d, dtype=float)
        if not np.all(np.abs(d) < 2.0 ** 30) or not np.array_equal(d * 64, np.round(d * 64)):
            return False
        st = (_F(d.max()) - _F(d.min())) / (d.size - 1)
        if not (_pow2(st.denominator) and st.denominator <= 2 ** 20):
            return False
    return True


def grid_facts(domains):
    mins = [float(np.min(d)) for d in domains]
    maxs = [float(np.max(d)) for d in domains]
    lemin, lemax = max(mins), min(maxs)
    overlap = _F(lemax) - _F(lemin)
    step = max((_F(mx) - _F(mn)) / (len(d) - 1) for d, mn, mx in zip(domains, mins, maxs))
    return lemin, lemax, overlap, step


def interval_counts(r, exact):
    """Accepted numbers of intervals for r = overlap / step (Fraction)."""
    if r < 1:
        return [1], False
    m = int(math.floor(r))
    frac = float(r - m)
    eps = 0.0 if exact else BAND * max(1.0, float(r))
    t_lo = m / (2.0 * m + 1.0)       # |overlap/k - step| switches from k=m to k=m+1 here (< 0.5)
    if frac == 0.0 or frac < t_lo - eps:
        return [m], False
    if frac > 0.5 + eps:
        return [m + 1], False
    # between the two readings of "closest" (or a rounding tie): round() picks m below .5
    return [m, m + 1], True


def decide(domains):
    lemin, lemax, overlap, step = grid_facts(domains)
    exact = exact_arith(domains)
    scale = max(abs(lemin), abs(lemax))
    out = {"lemin": lemin, "lemax": lemax, "overlap": float(overlap), "step": float(step), "exact": exact,
           "scale": max(scale, float(abs(overlap)))}
    if overlap <= 0:
        out["verdict"] = "reject"
        return out
    band = 0.0 if exact else BAND * float(step) + 64 * EPS * scale
    if overlap < step:
        out["verdict"] = "substep"
    elif float(overlap - step) <= band and not (exact and overlap >= step):
        out["verdict"] = "band"
    else:
        out["verdict"] = "accept"
    r = overlap / step
    out["r"] = float(r)
    out["Ks"], out["ambiguous"] = interval_counts(r, exact)
    if out["verdict"] == "band":
        out["Ks"] = [1]
    return out


def interp_axis(dom, arr, axis, newd):
    """np.interp of the function given by the (domain, value) pairs along `axis`."""
    dom = np.asarray(dom, dtype=float)
    order = np.argsort(dom, kind="stable")
    xs = dom[order]
    a = np.take(np.asarray(arr, dtype=float), order, axis=axis)
    a = np.moveaxis(a, axis, -1)
    flat = a.reshape(-1, xs.size)
    out = np.empty((flat.shape[0], newd.size))
    for k in range(flat.shape[0]):
        out[k] = np.interp(newd, xs, flat[k])
    out = out.reshape(a.shape[:-1] + (newd.size,))
    return np.moveaxis(out, -1, axis)


# ====================================================================== generators

def _mk(rng, lo, hi, n, kind):
    """strictly ascending domain with min == lo, max == hi exactly and n points"""
    n = max(2, int(n))
    if kind == "uniform" or n == 2:
        d = np.linspace(lo, hi, n)
    else:
        if kind == "random":
            w = rng.uniform(0.05, 1.0, n - 1)
        elif kind == "twoscale":
            w = np.where(rng.random(n - 1) < 0.5, rng.uniform(0.001, 0.01, n - 1), rng.uniform(0.5, 1.0, n - 1))
        else:  # log
            w = np.geomspace(1.0, float(rng.uniform(5, 200)), n - 1)
            if rng.integers(2):
                w = w[::-1]
        t = np.concatenate([[0.0], np.cumsum(w)]) / np.sum(w)
        d = lo + (hi - lo) * t
    d = np.asarray(d, dtype=float)
    d[0], d[-1] = lo, hi
    if np.any(np.diff(d) <= 0):
        d = np.linspace(lo, hi, n)
        d[0], d[-1] = lo, hi
    return d


def _order(rng, d, how):
    if how == "rev":
        return d[::-1].copy()
    if how == "perm":
        return rng.permutation(d)
    return d


def _texture(rng, texture, count):
    """per-domain (kind, order)"""
    kinds, orders = [], []
    for j in range(count):
        if texture == "uniform":
            kinds.append("uniform")
            orders.append("asc")
        elif texture == "nonuniform":
            kinds.append(["random", "twoscale", "log"][rng.integers(3)])
            orders.append("asc")
        elif texture == "unsorted":
            kinds.append(["uniform", "random", "twoscale", "log"][rng.integers(4)])
            orders.append(["perm", "rev", "asc"][rng.integers(3)])
        else:
            kinds.append(["uniform", "random", "twoscale", "log"][rng.integers(4)])
            orders.append(["asc", "asc", "perm", "rev"][rng.integers(4)])
    if texture == "unsorted" and all(o == "asc" for o in orders):
        orders[int(rng.integers(count))] = ["perm", "rev"][rng.integers(2)]
    return kinds, orders


def _core(rng):
    c0 = float(rng.uniform(-500, 1000)) if rng.integers(4) else float(rng.integers(-500, 1000))
    if rng.integers(12) == 0:
        c0 = float(rng.uniform(-1e4, 1e4))
    L = float(10 ** rng.uniform(0.5, 2.7))
    return c0, L


def gen_domains(rng, layout, texture, count):
    """list of domains (float64 or int64 arrays)"""
    c0, L = _core(rng)
    c1 = c0 + L
    kinds, orders = _texture(rng, texture, count)
    spans = None      # list of (lo, hi, n)
    if layout == "identical":
        n = int(rng.integers(2, 50))
        if texture == "uniform" and rng.integers(3) == 0:
            d = np.arange(int(c0), int(c0) + n * int(rng.integers(1, 6)), int(rng.integers(1, 6)))
            if d.size < 2:
                d = np.arange(int(c0), int(c0) + 5)
        else:
            d = _order(rng, _mk(rng, c0, c1, n if kinds[0] == "uniform" else max(n, 3), kinds[0]), orders[0])
        out = [d.copy() for _ in range(count)]
        if d.dtype.kind == "i" and rng.integers(2):
            out[-1] = out[-1].astype(float)      # same values, other dtype: still the same domain
        return out
    if layout in ("same", "nested", "partial"):
        if texture == "uniform" and rng.integers(4) == 0:
            # integer wavelength grids with different steps
            out = []
            base = int(c0)
            for j in range(count):
                s = int(rng.integers(1, 8))
                lo = base - int(rng.integers(0, 30)) * (layout != "same")
                hi = base + 60 + int(rng.integers(0, 60)) * (layout != "same")
                out.append(np.arange(lo, hi + 1, s))
            return out
        spans = []
        if layout == "same":
            ext = [(0.0, 0.0)] * count
        elif layout == "nested":
            e = np.sort(rng.uniform(0.05, 2.0, count))[::-1] * L
            f = np.sort(rng.uniform(0.05, 2.0, count))[::-1] * L
            ext = [(float(e[j]), float(f[j])) for j in range(count)]
            ext[-1] = (0.0, 0.0)
            if rng.integers(3) == 0 and count >= 2:   # nested but sharing one end point
                ext[0] = (ext[0][0], 0.0)
        else:
            ext = [(float(rng.uniform(0.05, 1.5)) * L, 0.0), (0.0, float(rng.uniform(0.05, 1.5)) * L)]
            for j in range(2, count):
                ext.append((float(rng.uniform(0, 1.5)) * L * int(rng.integers(2)),
                            float(rng.uniform(0, 1.5)) * L * int(rng.integers(2))))
        for j in range(count):
            lo, hi = c0 - ext[j][0], c1 + ext[j][1]
            nmin = int(math.ceil(2.5 * (hi - lo) / L)) + 1
            spans.append((lo, hi, nmin + int(rng.integers(0, 40))))
        if layout == "same":
            ns = {s[2] for s in spans}
            if len(ns) == 1 and all(k == "uniform" for k in kinds):     # would be identical
                lo, hi, n = spans[0]
                spans[0] = (lo, hi, n + 3)
    elif layout in ("touching", "disjoint"):
        p = c0
        gap = 0.0 if layout == "touching" else float(L * 10 ** rng.uniform(-9, 0.5))
        L0, L1 = float(rng.uniform(0.2, 2) * L), float(rng.uniform(0.2, 2) * L)
        hi0 = p - gap
        if layout == "disjoint" and not (hi0 < p):
            hi0 = float(np.nextafter(p, -np.inf))
        spans = [(hi0 - L0, hi0, int(rng.integers(2, 40))), (p, p + L1, int(rng.integers(2, 40)))]
        for j in range(2, count):
            spans.append((p - float(rng.uniform(0.1, 2) * L), p + float(rng.uniform(0.1, 2) * L),
                          int(rng.integers(2, 40))))
        if rng.integers(2):
            spans[0], spans[1] = spans[1], spans[0]
    elif layout in ("substep", "nearfit"):
        nA = int(rng.integers(2, 20))
        sA = L / (nA - 1)
        if layout == "substep":
            frac = float(rng.uniform(0.02, 0.98))
        else:
            frac = 1.0 + float([1e-13, -1e-13, 1e-11, -1e-11, 1e-7, -1e-7, 1e-4, -1e-4, 0.0, 3e-16][rng.integers(10)])
        nB = int(rng.integers(3, 40))
        LB = float(rng.uniform(1.05 * frac, 0.95 * (nB - 1))) * sA if (nB - 1) * 0.95 > 1.05 * frac else 1.5 * frac * sA
        if LB / (nB - 1) >= sA:
            nB = int(math.ceil(LB / sA)) + 3
        if rng.integers(2):     # overlap at the low end of A
            hiB = c0 + frac * sA
            spans = [(c0, c0 + sA * (nA - 1), nA), (hiB - LB, hiB, nB)]
        else:                   # overlap at the high end of A
            top = c0 + sA * (nA - 1)
            loB = top - frac * sA
            spans = [(c0, top, nA), (loB, loB + LB, nB)]
        for j in range(2, count):
            lo = min(s[0] for s in spans) - float(rng.uniform(0, 1)) * L
            hi = max(s[1] for s in spans) + float(rng.uniform(0, 1)) * L
            spans.append((lo, hi, int(math.ceil((hi - lo) / sA)) + 2 + int(rng.integers(0, 20))))
        if rng.integers(2):
            spans[0], spans[1] = spans[1], spans[0]
            kinds[0], kinds[1] = kinds[1], kinds[0]
    else:  # exactfit / tie : dyadic grids, every float operation involved is exact
        a = float(rng.integers(-200, 800))
        sA = float(rng.integers(4, 81)) / 8.0
        K = int([1, 1, 1, 2, 3, 5, 8][rng.integers(7)])
        half = 0.5 if layout == "tie" else 0.0
        nA = K + 2 + int(rng.integers(0, 6))
        A = a + sA * np.arange(nA)
        sB = sA / float(2 ** int(rng.integers(1, 4)))
        ov = (K + half) * sA
        nB = int(round(ov / sB)) + 2 + int(rng.integers(0, 8))
        if rng.integers(2):
            B = (a + ov) - sB * np.arange(nB)[::-1]                  # overlap [a, a + ov]
        else:
            B = (A[-1] - ov) + sB * np.arange(nB)                     # overlap [A[-1] - ov, A[-1]]
        out = [A, B]
        for j in range(2, count):
            out.append((min(A[0], B[0]) - sA * int(rng.integers(0, 4))) + sA * np.arange(nA + nB + 8))
        out = [_order(rng, d, orders[j]) for j, d in enumerate(out)]
        if rng.integers(2):
            out[0], out[1] = out[1], out[0]
        return out
    return [_order(rng, _mk(rng, lo, hi, n, kinds[j]), orders[j]) for j, (lo, hi, n) in enumerate(spans)]


def _vals(rng, shape):
    k = int(rng.integers(5))
    if k == 0:
        return rng.normal(0, 1, shape)
    if k == 1:
        return rng.uniform(0, 1, shape)
    if k == 2:
        return rng.normal(0, 1, shape) * 10 ** rng.uniform(-3, 3)
    if k == 3:
        return rng.integers(-5, 6, shape)           # integer dtype
    return np.abs(rng.normal(0, 1, shape)) * (rng.random(shape) < 0.7)


def _rep(rng, ax, rank):
    """positive or negative spelling of axis ax"""
    return int(ax - rank) if rng.integers(2) else int(ax)


def gen_arrays(rng, lens, mode):
    """returns arrs, axes argument, stack_axis, concatenate"""
    count = len(lens)
    if mode == "free":
        sub = int(rng.integers(3))
        arrs = []
        if sub == 0:                                   # axes=None: domain on the last axis
            for n in lens:
                rank = int(rng.integers(1, 4))
                arrs.append(_vals(rng, tuple(int(rng.integers(1, 5)) for _ in range(rank - 1)) + (n,)))
            return arrs, None, None, False
        if sub == 1:                                   # one int for all arrays
            a = int([0, -1, 1, -2, 2, -3][rng.integers(6)])
            minrank = a + 1 if a >= 0 else -a
            for n in lens:
                rank = int(rng.integers(minrank, 4))
                shp = [int(rng.integers(1, 5)) for _ in range(rank)]
                shp[a] = n
                arrs.append(_vals(rng, tuple(shp)))
            return arrs, a, None, False
        axes = []
        for n in lens:
            rank = int(rng.integers(1, 4))
            ax = int(rng.integers(rank))
            shp = [int(rng.integers(1, 5)) for _ in range(rank)]
            shp[ax] = n
            arrs.append(_vals(rng, tuple(shp)))
            axes.append(_rep(rng, ax, rank))
        return arrs, axes, None, False
    rank = int(rng.integers(1, 4))
    ax = int(rng.integers(rank))
    base = [int(rng.integers(1, 5)) for _ in range(rank)]
    conc = mode == "concat"
    if conc:
        sax = int(rng.integers(rank))
    else:
        sax = int(rng.integers(rank + 1))
    arrs = []
    for n in lens:
        shp = list(base)
        if conc and sax != ax:
            shp[sax] = int(rng.integers(1, 5))
        shp[ax] = n
        arrs.append(_vals(rng, tuple(shp)))
    how = int(rng.integers(3))
    if ax == rank - 1 and how == 0:
        axes = None
    elif how == 1:
        axes = [_rep(rng, ax, rank) for _ in lens]
    else:
        axes = _rep(rng, ax, rank)
    stack_axis = int(sax - (rank if conc else rank + 1)) if rng.integers(2) else int(sax)
    return arrs, axes, stack_axis, conc


def _is_sorted(d):
    d = np.asarray(d)
    return bool(np.all(np.diff(d) > 0))


def _case(rng, layout, texture, count, mode):
    doms = gen_domains(rng, layout, texture, count)
    k = int(rng.integers(12))
    if k == 0 and layout in ("same", "nested", "partial"):
        # two domains of the SAME length that differ by a small shift or stretch (1e-9 .. 1e-1 of a step): still
        # different domains (a new overlap domain is due), never 'already shared'
        d = np.asarray(doms[0], float)
        step = float((np.max(d) - np.min(d)) / max(len(d) - 1, 1))
        e = step * float(10 ** rng.uniform(-9, -1))
        doms[1] = d + e if rng.integers(2) else np.min(d) + (d - np.min(d)) * (1.0 + e / max(np.max(d) - np.min(d), step))
        layout = "nearequal"
    elif k == 1 and layout in ("touching", "disjoint"):
        # same-length domains that do not overlap
        n = min(len(d) for d in doms[:2])
        doms = [np.asarray(d)[:n] if j < 2 and _is_sorted(d) else d for j, d in enumerate(doms)]
    unit = 0
    if rng.integers(4) == 0:
        # other units of the domain (metres instead of nanometres, ...): powers of two, so that every float decision
        # of the oracle (and of a correct implementation) is unchanged
        unit = int([-30, -20, -10, 10, 20][rng.integers(5)])
        doms = [np.asarray(d, float) * 2.0 ** unit for d in doms]
    arrs, axes, stack_axis, conc = gen_arrays(rng, [len(d) for d in doms], mode)
    big = False
    if mode == "free" and axes is None and rng.integers(150) == 0:
        # a large call: more than 2^20 interpolated values for one array (internal chunking / pre-allocated buffers)
        arrs[0] = _vals(rng, (64, 64, 16, len(doms[0])))
        big = True
    return {"domains": doms, "arrs": arrs, "axes": axes, "stack_axis": stack_axis, "concatenate": bool(conc),
            "layout": layout, "texture": texture, "mode": mode, "unit_pow2": unit, "big": big}


def gen_main(rng, i):
    layout = LAYOUTS_OK[i % 4] if rng.integers(8) else LAYOUTS_EDGE[rng.integers(len(LAYOUTS_EDGE))]
    texture = TEXTURES[(i // 4) % 4]
    count = 2 + (i // 16) % 3
    return _case(rng, layout, texture, count, "free")


def gen_edge(rng, i):
    layout = LAYOUTS_EDGE[i % len(LAYOUTS_EDGE)]
    texture = TEXTURES[(i // 6) % 4]
    count = 2 + (i // 24) % 3
    return _case(rng, layout, texture, count, ["free", "stack", "concat"][rng.integers(3)])


def gen_stack(rng, i):
    layout = (LAYOUTS_OK + ["exactfit", "tie"])[i % 6]
    texture = TEXTURES[(i // 6) % 4]
    count = 2 + (i // 24) % 3
    return _case(rng, layout, texture, count, ["stack", "concat"][(i // 3) % 2])


# ====================================================================== clause: equalize_domains

def _norm_axes(axes, arrs):
    if axes is None:
        ax = [-1] * len(arrs)
    elif isinstance(axes, (int, np.integer)):
        ax = [int(axes)] * len(arrs)
    else:
        ax = [int(a) for a in axes]
    return [a % np.ndim(x) for a, x in zip(ax, arrs)]


def _cells(c, inp, domains, arrs, axes_n):
    c.cell("layout=" + inp["layout"], "texture=" + inp["texture"], "n_domains=%d" % len(domains))
    if inp.get("unit_pow2", 0):
        c.cell("domain-units=" + ("small" if inp["unit_pow2"] < 0 else "large"))
    if inp.get("big"):
        c.cell("large-call")
    axes = inp["axes"]
    c.cell("axes=None" if axes is None else "axes=int" if isinstance(axes, (int, np.integer)) else "axes=list")
    if axes is not None and np.any(np.asarray(axes) < 0):
        c.cell("axes=negative")
    for a, ax in zip(arrs, axes_n):
        c.cell("rank=%d" % a.ndim)
        if ax == a.ndim - 1:
            c.cell("axis=last")
        if ax == 0 and a.ndim > 1:
            c.cell("axis=first")
        if a.ndim == 3 and ax == 1:
            c.cell("axis=middle")
        if a.dtype.kind == "i":
            c.cell("array=int-dtype")
    if any(d.dtype.kind == "i" for d in domains):
        c.cell("domain=int-dtype")
    if inp["stack_axis"] is None:
        c.cell("no-stack")
    else:
        c.cell("concatenate" if inp["concatenate"] else "stack")


def _combine(parts, stack_axis, conc):
    if stack_axis is None:
        return parts
    return np.concatenate(parts, axis=stack_axis) if conc else np.stack(parts, axis=stack_axis)


def _unsorted(d):
    return bool(np.any(np.diff(np.asarray(d, dtype=float)) < 0))


def _nonuniform(d):
    s = np.diff(np.sort(np.asarray(d, dtype=float)))
    return bool(s.size > 1 and np.max(s) - np.min(s) > 1e-6 * np.max(s))


def check_domain(c, nd, fx, prefix=""):
    """postconditions on the returned domain; returns K (number of intervals) or None"""
    nd = np.asarray(nd)
    ok = c.require(nd.ndim == 1 and nd.size >= 2 and nd.dtype.kind == "f" and bool(np.all(np.isfinite(nd))),
                   prefix + "new domain is a finite 1-D float array with at least two points",
                   mechanism="domain-malformed", shape=list(nd.shape), dtype=str(nd.dtype), head=nd.ravel()[:6])
    if not ok:
        return None
    lemin, lemax, scale = fx["lemin"], fx["lemax"], fx["scale"]
    tol = TOL_ENDS * scale
    c.margin("domain start vs max of minima", abs(nd[0] - lemin), tol)
    c.margin("domain end vs min of maxima", abs(nd[-1] - lemax), tol)
    c.require(abs(nd[0] - lemin) <= tol, prefix + "new domain starts exactly at the largest of the input minima",
              mechanism="start-not-overlap-min", got=float(nd[0]), want=lemin)
    c.require(abs(nd[-1] - lemax) <= tol, prefix + "new domain ends exactly at the smallest of the input maxima",
              mechanism="end-not-overlap-max", got=float(nd[-1]), want=lemax)
    K = nd.size - 1
    diffs = np.diff(nd)
    mean = float(np.mean(diffs))
    utol = 1e-9 * abs(mean) + 16 * EPS * scale
    c.margin("uniform spacing", float(np.max(np.abs(diffs - mean))), utol)
    c.require(mean > 0 and float(np.max(np.abs(diffs - mean))) <= utol,
              prefix + "new domain is ascending and uniformly spaced", mechanism="domain-not-uniform",
              min_diff=float(np.min(diffs)), max_diff=float(np.max(diffs)))
    c.require(K in fx["Ks"], prefix + "number of intervals is round(overlap / coarsest mean step): the step closest "
              "to the coarsest mean input step that fits", mechanism="interval-count",
              got_intervals=int(K), want_intervals=fx["Ks"], overlap=fx["overlap"], coarsest_step=fx["step"],
              got_step=mean)
    return K


def chk_eq(inp, c):
    domains = [np.asarray(d) for d in inp["domains"]]
    arrs = [np.asarray(a) for a in inp["arrs"]]
    axes, stack_axis, conc = inp["axes"], inp["stack_axis"], bool(inp["concatenate"])
    if isinstance(axes, np.ndarray):
        axes = [int(a) for a in axes]
    count = len(domains)
    axes_n = _norm_axes(axes, arrs)
    _cells(c, inp, domains, arrs, axes_n)
    d_in = [d.copy() for d in domains]
    a_in = [a.copy() for a in arrs]
    kw = {}
    if axes is not None:
        kw["axes"] = list(axes) if isinstance(axes, list) else int(axes)
    if stack_axis is not None:
        kw["stack_axis"] = int(stack_axis)
        kw["concatenate"] = conc
    identical = all(np.array_equal(domains[0], d) for d in domains)
    fx = None if identical else decide(domains)
    raised = None
    try:
        res = c.call(dreye.equalize_domains, d_in, a_in, _raises_ok=(ValueError,), _where="equalize_domains", **kw)
    except UnderTestRaised as e:
        raised = e
    # inputs are never modified in place (whatever the outcome)
    c.require(all(np.array_equal(x, y) and x.dtype == y.dtype for x, y in zip(d_in, domains))
              and all(np.array_equal(x, y) and x.dtype == y.dtype for x, y in zip(a_in, arrs)),
              "input domains and arrays are not modified in place", mechanism="inputs-mutated")

    if raised is not None:
        c.cell("rejected")
        if identical:
            c.fail("arrays that already share a domain were rejected: " + str(raised)[:150],
                   mechanism="reject-identical")
        c.note("decision", {"observed": "rejected", "overlap": fx["overlap"], "coarsest_step": fx["step"],
                            "oracle": fx["verdict"]})
        if fx["verdict"] == "accept":
            if fx["exact"] and abs(fx["overlap"] - fx["step"]) == 0:
                c.cell("boundary:overlap==step-rejected")
            c.fail("domains with a proper overlap of at least one coarsest step were rejected: " + str(raised)[:150],
                   mechanism="reject-valid-overlap", overlap=fx["overlap"], coarsest_step=fx["step"],
                   lemin=fx["lemin"], lemax=fx["lemax"])
        c.cell("rejected:" + fx["verdict"])
        if fx["verdict"] == "band":
            c.cell("boundary:indeterminate-band")
        c.nontrivial(fx["verdict"] == "reject")
        return

    c.cell("accepted")
    ok = c.require(isinstance(res, tuple) and len(res) == 2, "returns (new domain, new arrays)",
                   mechanism="return-malformed", got_type=str(type(res)))
    if not ok:
        return
    nd, out = res

    if identical:
        nd_a = np.asarray(nd)
        c.require(nd_a.shape == domains[0].shape and np.array_equal(nd_a, domains[0]),
                  "shared domain is returned as it is", mechanism="identical-domain-changed",
                  got=nd_a.ravel()[:6], want=domains[0].ravel()[:6])
        want = _combine(arrs, stack_axis, conc)
        if stack_axis is None:
            good = isinstance(out, (list, tuple)) and len(out) == count and all(
                np.shape(o) == a.shape and np.array_equal(np.asarray(o), a) for o, a in zip(out, arrs))
        else:
            o = np.asarray(out)
            good = o.shape == want.shape and np.array_equal(o, want)
        c.require(good, "arrays that already share a domain are returned unchanged (stacked / concatenated if asked)",
                  mechanism="identical-arrays-changed")
        c.note("identical", {"n": int(domains[0].size), "unsorted": _unsorted(domains[0])})
        c.nontrivial(any(a.ndim >= 2 for a in arrs) and domains[0].size >= 3)
        return

    c.note("decision", {"observed": "answered", "overlap": fx["overlap"], "coarsest_step": fx["step"],
                        "oracle": fx["verdict"]})
    if fx["verdict"] == "reject":
        c.fail("non-overlapping domains were not rejected", mechanism="accept-nonoverlap",
               lemin=fx["lemin"], lemax=fx["lemax"], got_domain=np.asarray(nd).ravel()[:6])
    c.cell("accepted:" + fx["verdict"])
    if fx["verdict"] == "band":
        c.cell("boundary:indeterminate-band")
    if fx["exact"] and fx["overlap"] == fx["step"]:
        c.cell("boundary:overlap==step-accepted")
    if fx["ambiguous"]:
        c.cell("boundary:closest-step-two-readings")
    K = check_domain(c, nd, fx)
    if K is None:
        return
    nd = np.asarray(nd, dtype=float)
    c.cell("intervals=1" if K == 1 else "intervals=2-5" if K <= 5 else "intervals>5")
    if abs(fx["r"] - round(fx["r"])) > 1e-6:
        c.cell("step-does-not-divide-overlap")

    parts, tols = [], []
    for d, a, ax in zip(domains, arrs, axes_n):
        w = interp_axis(d, a, ax, nd)
        parts.append(w)
        tols.append(np.full(w.shape, TOL_INTERP * max(float(np.max(np.abs(a))) if a.size else 0.0, 1e-300)))
    want = _combine(parts, stack_axis, conc)
    tol = _combine(tols, stack_axis, conc)
    if stack_axis is None:
        ok = c.require(isinstance(out, (list, tuple)) and len(out) == count, "one new array per input array",
                       mechanism="arrays-malformed", got_type=str(type(out)))
        if not ok:
            return
        got_l, want_l, tol_l = [np.asarray(o) for o in out], want, tol
    else:
        c.require(isinstance(out, np.ndarray), "stacked / concatenated result is one array",
                  mechanism="arrays-malformed", got_type=str(type(out)))
        got_l, want_l, tol_l = [np.asarray(out)], [want], [tol]
    worst = 0.0
    for j, (g, w, t) in enumerate(zip(got_l, want_l, tol_l)):
        ok = c.require(g.shape == w.shape, "array keeps its shape with the domain axis replaced by the new domain "
                       "length (then np.stack / np.concatenate shape)", mechanism="array-shape",
                       index=j, got=list(g.shape), want=list(w.shape))
        if not ok:
            continue
        ok = c.require(g.dtype.kind == "f" and bool(np.all(np.isfinite(g))), "interpolated arrays are finite floats",
                       mechanism="array-nonfinite", index=j, dtype=str(g.dtype))
        if not ok:
            continue
        dev = np.abs(g - w)
        if dev.size:
            worst = max(worst, float(np.max(dev / t)))
        c.require(bool(np.all(dev <= t)), "every array is linearly interpolated onto the new domain along its axis "
                  "(np.interp of the sorted (domain, value) pairs)", mechanism="interp-value", index=j,
                  max_dev=float(np.max(dev)) if dev.size else 0.0, got=g.ravel()[:6], want=w.ravel()[:6],
                  axis=int(axes_n[j]) if stack_axis is None else None)
    c.margin("interpolated values vs np.interp", worst, 1.0)
    uns = any(_unsorted(d) for d in domains)
    non = any(_nonuniform(d) for d in domains)
    if uns:
        c.cell("has-unsorted-domain")
    if non:
        c.cell("has-nonuniform-domain")
    c.nontrivial(any(a.ndim >= 2 for a in arrs) or uns or non)
    c.note("grid", {"got": [float(nd[0]), float(nd[-1]), int(K)], "oracle": [fx["lemin"], fx["lemax"], fx["Ks"]],
                    "overlap_over_step": fx["r"]})
    c.note("first_values", {"got": got_l[0].ravel()[:3], "oracle": np.asarray(want_l[0]).ravel()[:3]})


M.add("equalize_vs_oracle", gen_main, chk_eq, weight=5, min_held=300)
M.add("reject_and_boundaries", gen_edge, chk_eq, weight=2, min_held=100)
M.add("stack_concatenate", gen_stack, chk_eq, weight=2, min_held=100)


# ====================================================================== clause: estimator capture

CAP_KINDS = ["equalised", "equalised", "equalised", "equalised", "own-domain", "scalar-step", "rejected",
             "register_system", "equalised-edge"]


def gen_cap(rng, i):
    kind = CAP_KINDS[i % len(CAP_KINDS)]
    nf, ns = int(rng.integers(1, 6)), int(rng.integers(1, 6))
    sig1d = bool(rng.integers(5) == 0) and kind != "register_system"
    texture = TEXTURES[int(rng.integers(4))]
    if kind == "scalar-step":
        n = int(rng.integers(2, 60))
        dx = float([1.0, 0.5, 2.0, 5.0][rng.integers(4)]) if rng.integers(2) else float(rng.uniform(0.01, 20))
        fd, sd = np.asarray(dx), np.asarray(dx)
        nfd = nsd = n
    elif kind == "own-domain":
        kinds, _ = _texture(rng, texture, 1)
        c0, L = _core(rng)
        n = int(rng.integers(2, 60))
        fd = _mk(rng, c0, c0 + L, n, kinds[0])
        sd = fd.copy()
        nfd = nsd = fd.size
    else:
        layout = {"rejected": ["touching", "disjoint"][int(rng.integers(2))],
                  "equalised-edge": ["exactfit", "tie", "substep", "nearfit"][int(rng.integers(4))]}.get(
                      kind, ["same", "nested", "partial"][int(rng.integers(3))])
        fd, sd = gen_domains(rng, layout, texture, 2)
        if kind in ("equalised", "register_system") and rng.integers(4) == 0:
            # equal lengths: the two arrays can only be told apart by their domains
            lo, hi = float(np.min(sd)), float(np.max(sd))
            sd = _mk(rng, lo, hi, fd.size, "uniform" if texture == "uniform" else "random")
        if kind in ("equalised", "register_system") and rng.integers(6) == 0:
            # same length, shifted by a small fraction of a step: a different domain all the same
            d = np.asarray(fd, float)
            step = float((np.max(d) - np.min(d)) / max(len(d) - 1, 1))
            sd = d + step * float(10 ** rng.uniform(-6, -1)) * (1 if rng.integers(2) else -1)
        nfd, nsd = fd.size, sd.size
    if rng.integers(4) == 0:
        # other domain units (powers of two: all float decisions unchanged)
        u = 2.0 ** int([-30, -20, -10, 10, 20][rng.integers(5)])
        fd, sd = np.asarray(fd, float) * u, np.asarray(sd, float) * u
    filters = np.abs(rng.normal(0, 1, (nf, nfd))) * 10 ** rng.uniform(-2, 2)
    signals = np.abs(rng.normal(0, 1, (nsd,) if sig1d else (ns, nsd))) * 10 ** rng.uniform(-2, 2)
    if rng.integers(6) == 0:
        signals = rng.normal(0, 1, signals.shape)
    return {"kind": kind, "texture": texture, "filters": filters, "signals": signals, "fdomain": fd, "sdomain": sd,
            "domain_as_list": bool(rng.integers(5) == 0)}


def chk_cap(inp, c):
    kind, f, s = inp["kind"], np.asarray(inp["filters"], dtype=float), np.asarray(inp["signals"], dtype=float)
    fd, sd = np.asarray(inp["fdomain"]), np.asarray(inp["sdomain"])
    c.cell("capture:" + ("equalised" if kind == "equalised-edge" else kind), "texture=" + inp["texture"])
    f_in, s_in = f.copy(), s.copy()

    def expected_shape():
        return (s.shape[0], f.shape[0]) if s.ndim == 2 else (f.shape[0],)

    if kind == "scalar-step":
        dx = float(fd)
        est = c.call(dreye.ReceptorEstimator, f_in, domain=dx, _where="ReceptorEstimator")
        got = np.asarray(c.call(est.capture, s_in, domain=dx, _where="ReceptorEstimator.capture"))
        plain = np.asarray(c.call(est.capture, s_in, _where="ReceptorEstimator.capture"))
        want, mag = oracles.capture_oracle(f, s, oracles.step_weights(f.shape[-1], dx, True))
        ok = c.require(got.shape == want.shape == plain.shape, "capture shape (n_signals, n_filters)",
                       mechanism="capture-shape", got=list(got.shape), want=list(want.shape))
        if not ok:
            return
        c.require(np.array_equal(got, plain), "same scalar step supplied again: equals the plain capture",
                  mechanism="capture-scalar-step")
        dev = np.abs(got - want)
        c.margin("capture vs oracle", float(np.max(dev / (TOL_CAPTURE * mag + 1e-300))), 1.0)
        c.require(bool(np.all(dev <= TOL_CAPTURE * mag + 1e-300)), "capture on the shared scalar-step domain equals "
                  "the trapezoid integral", mechanism="capture-value", max_dev=float(np.max(dev)))
        c.nontrivial(f.shape[-1] >= 3)
        c.note("scalar_step", dx)
        return

    sd_arg = [float(x) for x in sd] if inp["domain_as_list"] else sd.copy()
    est = c.call(dreye.ReceptorEstimator, f_in, domain=fd.copy(), _where="ReceptorEstimator")
    identical = np.array_equal(fd, sd)
    fx = None if identical else decide([fd, sd])

    raised = None
    got = None
    try:
        if kind == "register_system":
            c.call(est.register_system, s_in, domain=sd_arg, _raises_ok=(ValueError,),
                   _where="ReceptorEstimator.register_system")
            ok = c.require(hasattr(est, "A") and hasattr(est, "sources_domain") and hasattr(est, "sources"),
                           "register_system sets A / sources / sources_domain", mechanism="register-malformed")
            if not ok:
                return
            got = np.asarray(est.A).T
        else:
            got = np.asarray(c.call(est.capture, s_in, domain=sd_arg, _raises_ok=(ValueError,),
                                    _where="ReceptorEstimator.capture"))
    except UnderTestRaised as e:
        raised = e
    c.require(np.array_equal(f_in, f) and np.array_equal(s_in, s) and np.array_equal(np.asarray(est.filters), f),
              "filters and signals are not modified in place", mechanism="inputs-mutated")

    if raised is not None:
        if identical or fx["verdict"] == "accept":
            c.fail("capture with a signal domain that properly overlaps the filter domain was rejected: "
                   + str(raised)[:150], mechanism="capture-reject-valid-overlap",
                   overlap=None if identical else fx["overlap"], coarsest_step=None if identical else fx["step"])
        c.cell("capture:rejected:" + fx["verdict"])
        c.nontrivial(fx["verdict"] == "reject")
        c.note("decision", {"observed": "rejected", "overlap": fx["overlap"], "coarsest_step": fx["step"]})
        return
    if not identical and fx["verdict"] == "reject":
        c.fail("capture for a signal domain that does not overlap the filter domain was not rejected",
               mechanism="capture-accept-nonoverlap", lemin=fx["lemin"], lemax=fx["lemax"])

    ok = c.require(got.shape == expected_shape(), "capture shape (n_signals, n_filters)", mechanism="capture-shape",
                   got=list(got.shape), want=list(expected_shape()))
    if not ok:
        return
    ok = c.require(bool(np.all(np.isfinite(got))), "capture is finite", mechanism="capture-nonfinite")
    if not ok:
        return

    if identical:
        want, mag = oracles.capture_oracle(f, s, oracles.trapz_weights(fd.astype(float)))
        plain = np.asarray(c.call(est.capture, s_in, _where="ReceptorEstimator.capture"))
        c.require(plain.shape == got.shape and np.array_equal(plain, got),
                  "signal supplied on the filters' own domain: equals the plain capture (no interpolation)",
                  mechanism="capture-own-domain")
        dev = np.abs(got - want)
        c.margin("capture vs oracle", float(np.max(dev / (TOL_CAPTURE * mag + 1e-300))), 1.0)
        c.require(bool(np.all(dev <= TOL_CAPTURE * mag + 1e-300)),
                  "capture on the shared domain equals the trapezoid integral of the raw arrays",
                  mechanism="capture-value", max_dev=float(np.max(dev)))
        c.nontrivial(fd.size >= 3)
        return

    # capture of the interpolated signal and interpolated filters on the common grid
    best = None
    for K in fx["Ks"]:
        grid = np.linspace(fx["lemin"], fx["lemax"], K + 1)
        fi = interp_axis(fd, f, f.ndim - 1, grid)
        si = interp_axis(sd, s, s.ndim - 1, grid)
        want, mag = oracles.capture_oracle(fi, si, oracles.trapz_weights(grid))
        ratio = float(np.max(np.abs(got - want) / (TOL_CAPTURE * mag + 1e-300)))
        if best is None or ratio < best[0]:
            best = (ratio, K, want, fi, si, grid)
    ratio, K, want, fi, si, grid = best
    c.margin("capture vs oracle on the equalised grid", ratio, 1.0)
    c.require(ratio <= 1.0, "capture of a signal given on its own domain equals the capture of the interpolated "
              "signal and interpolated filters on the common domain", mechanism="capture-equalised-value",
              intervals=[int(k) for k in fx["Ks"]], got=got.ravel()[:6], want=want.ravel()[:6],
              lemin=fx["lemin"], lemax=fx["lemax"], coarsest_step=fx["step"])
    c.cell("capture:accepted:" + fx["verdict"])
    if kind == "register_system":
        sdom = np.asarray(est.sources_domain)
        ok = c.require(sdom.ndim == 1 and sdom.shape == grid.shape and bool(np.all(np.isfinite(sdom))),
                       "registered sources domain is the common grid", mechanism="register-domain",
                       got=list(sdom.shape), want=list(grid.shape))
        if ok:
            c.require(bool(np.all(np.abs(sdom - grid) <= 1e-9 * fx["scale"])),
                      "registered sources domain is the common grid", mechanism="register-domain")
            src = np.asarray(est.sources)
            ok = c.require(src.shape == si.shape, "registered sources are the interpolated sources",
                           mechanism="register-sources", got=list(src.shape), want=list(si.shape))
            if ok:
                c.require(bool(np.all(np.abs(src - si) <= 1e-9 * max(float(np.max(np.abs(s))), 1e-300))),
                          "registered sources are the interpolated sources", mechanism="register-sources",
                          max_dev=float(np.max(np.abs(src - si))))
    c.nontrivial(K >= 2 and (f.shape[0] >= 2 or (s.ndim == 2 and s.shape[0] >= 2)))
    if fd.size == sd.size:
        c.cell("capture:equal-lengths")
    c.note("grid", {"lemin": fx["lemin"], "lemax": fx["lemax"], "intervals": int(K), "overlap_over_step": fx["r"]})
    c.note("first_entries", {"got": got.ravel()[:3], "oracle": want.ravel()[:3]})


M.add("estimator_capture", gen_cap, chk_cap, weight=3, min_held=150)


# the repository's own tests as one more workload: contracts armed in situ (harness/observe.py)
from harness import observe as _observe  # noqa: E402
_observe.add_insitu_clause(M, ['domain.equalize_domains'], runtime)
