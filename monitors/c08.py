"""C08 — underdetermined fits reproduce the target and optimise the chosen secondary goal.

Events: (X, B_pred) from ReceptorEstimator.fit_underdetermined.  Oracle: optimum of the same goal
over an *inner* polytope {|w_i r_i| <= l2_eps/sqrt(m)} of the exact feasible set {||W r||_2 <= l2_eps}
(HiGHS for linear goals, SLSQP for quadratic ones); a witness must be feasible for the exact set.
"""
import numpy as np
from scipy.optimize import linprog, minimize

from harness import runtime, oracles, gen
from harness.core import Monitor

dreye = None
cp = None
OPTS = ["l2", "none", "min", "max", "var", "number", "vector"]


def _setup():
    global dreye, cp
    dreye = runtime.load_dreye()
    import cvxpy as cp_
    cp = cp_


M = Monitor(
    pid="C08",
    setup=_setup,
    title="Underdetermined fits reproduce the target and optimise the chosen secondary goal",
    rule=("cases: one bounded underdetermined well-scaled system (2-4 receptors, 1-3 surplus sources, lb zero/positive, K, "
          "baseline, optional per-receptor weights), 1-3 targets strictly inside the gamut (depth >= 1e-3*extent), option in "
          "{'l2', None, 'min', 'max', 'var', number, vector}, l2_eps in 1e-6..1e-3. non-trivial = the secondary optimum differs "
          "from the plain fit (some slack in the solution set) . distinct = hash of rounded inputs"),
    budget={"quick": (900, 70), "thorough": (40000, 1500)},
    anchors=[("dreye.api.optimize.lsq_linear", "lsq_linear_underdetermined"),
             ("dreye.api.optimize.lsq_linear", "_get_underdetermined_objective"),
             ("dreye.api.estimator", "ReceptorEstimator.fit_underdetermined")],
    deciding=["lsq_linear.lsq_linear_underdetermined", "lsq_linear._get_underdetermined_objective",
              "estimator.ReceptorEstimator.fit_underdetermined"],
    required_cells={"all": ["opt=" + o for o in OPTS] + ["surplus=1", "surplus=2", "surplus=3", "lb=pos", "lb=zero",
                                                         "W=receptor", "W=none", "K=matrix", "baseline=vector"]},
    assumptions=["feasibility asserted as ||W(K(Ax+b0)-b)||_2 <= l2_eps*(1+1e-3)+1e-7 (solver accuracy)",
                 "optimality vs an inner approximation of the feasible set: obj(X) <= obj_inner + 1e-3*(1+|obj|)"],
)


def objective(opt, x, val):
    if opt in ("l2", "none"):
        return float(np.linalg.norm(x))
    if opt == "min":
        return float(np.sum(x))
    if opt == "max":
        return -float(np.sum(x))
    if opt == "var":
        return float(np.sum((x - np.mean(x)) ** 2))
    if opt == "number":
        return float((np.sum(x) - val) ** 2)
    return float(np.sum((x - val) ** 2))


def inner_optimum(opt, val, Mt, c0, lbv, ubv, b, w, l2_eps):
    m, n = Mt.shape
    d = l2_eps / np.sqrt(m) / w * (1 - 1e-6)
    A_ub = np.vstack([Mt, -Mt])
    b_ub = np.concatenate([b - c0 + d, -(b - c0) + d])
    bounds = [(lbv[j], ubv[j]) for j in range(n)]
    if opt in ("min", "max"):
        cost = np.ones(n) if opt == "min" else -np.ones(n)
        r = linprog(cost, A_ub=A_ub, b_ub=b_ub, bounds=bounds, method="highs")
        if r.status != 0:      # slab thinner than the LP feasibility tolerance: use the exact-reproduction subset
            r = linprog(cost, A_eq=Mt, b_eq=b - c0, bounds=bounds, method="highs")
        return r.x if r.status == 0 else None
    # quadratic goals: optimise over the exact-reproduction subset {Mt x + c = b} (a subset of the feasible set) in
    # null-space coordinates x = xp + Nz, so that the witness reproduces the target to rounding error
    r0 = linprog(np.zeros(n), A_eq=Mt, b_eq=b - c0, bounds=bounds, method="highs")
    if r0.status != 0:
        return None
    xp = r0.x
    _, sv, vt = np.linalg.svd(Mt)
    Nz = vt[m:].T                                   # (n, n-m) null-space basis (full row rank)
    sq = {"l2": lambda x: np.sum(x ** 2), "none": lambda x: np.sum(x ** 2)}.get(opt, lambda x: objective(opt, x, val))
    G = np.vstack([Nz, -Nz])
    cons = [{"type": "ineq", "fun": lambda z: np.concatenate([xp + Nz @ z - lbv, ubv - xp - Nz @ z]), "jac": lambda z: G}]
    best = None
    for z0 in (np.zeros(Nz.shape[1]), Nz.T @ (0.5 * (lbv + ubv) - xp)):
        r = minimize(lambda z: sq(xp + Nz @ z), z0, method="SLSQP", constraints=cons, options={"maxiter": 500, "ftol": 1e-15})
        x = np.clip(xp + Nz @ r.x, lbv, ubv)
        if best is None or sq(x) < sq(best):
            best = x
    return best


def gen_case(rng, i):
    m = int(rng.integers(2, 5))
    n = m + int(rng.integers(1, 4))
    s = gen.make_system(rng, m=m, n=n, ubkind="finite")
    Mt, c0, lbv, ubv = gen.sys_arrays(s)
    N = int(rng.integers(1, 4))
    X = gen.interior_x(rng, lbv, ubv, N, margin=0.1)
    opt = OPTS[i % len(OPTS)]
    val = None
    if opt == "number":
        # requested totals inside, below and above what the bounds allow
        val = float(rng.uniform(np.sum(lbv) - 0.5 * np.sum(ubv - lbv), np.sum(ubv) + 0.5 * np.sum(ubv - lbv)))
        k = int(rng.integers(8))
        if k < 4:       # boundary values of the option: zero (float / int / numpy scalar), an integer total, the bound totals
            val = [0.0, 0, float(np.round(val)), int(np.round(val))][k]
        elif k == 4:
            val = float([np.sum(lbv), np.sum(ubv)][rng.integers(2)])
    elif opt == "vector":
        # requested intensity vectors inside the bounds and with components outside them
        val = rng.uniform(lbv, ubv) + (rng.random(n) < 0.4) * rng.normal(0, 1, n) * (ubv - lbv)
        k = int(rng.integers(8))
        if k == 0:
            val = np.zeros(n)
        elif k == 1:
            val = np.round(val)         # integer-valued vector (handed over as int64 by the harness)
        elif k == 2:
            val = [lbv, ubv][rng.integers(2)].copy()
    wk = "receptor" if rng.integers(3) == 0 else "none"
    s.update({"B": X @ Mt.T + c0, "opt": opt, "val": val, "l2_eps": float(10 ** rng.uniform(-6, -3)),
              "wkind": wk, "W": rng.uniform(0.5, 2, m) if wk == "receptor" else None,
              "tight": bool(rng.integers(2)), "registered": bool(rng.integers(5) == 0)})
    return s


def chk_case(inp, c):
    ok, info = gen.regime_report(inp["A"], inp["lb"], inp["ub"], inp["K"], inp["baseline"], inp["B"])
    if not ok:
        c.unmet("outside the well-scaled regime")
    Mt, c0, lbv, ubv = gen.sys_arrays(inp)
    m, n = Mt.shape
    Z = oracles.Zonotope(Mt, c0, lbv, ubv)
    B, opt, val, eps = inp["B"], inp["opt"], inp["val"], inp["l2_eps"]
    dep = Z.depth(B) / Z.extent
    if np.any(dep < 1e-3):
        c.unmet("target not strictly inside the gamut")
    w = np.ones(m) if inp["W"] is None else inp["W"]
    c.cell(*gen.sys_cells(inp), "opt=" + opt, f"surplus={n - m}", "W=" + inp["wkind"],
           "solver=tight" if inp["tight"] else "solver=default")
    est = inp.get("_live_estimator")
    if est is None:
        est = c.call(gen.make_estimator, dreye, inp, w=(1.0 if inp["W"] is None else inp["W"]),
                     _where="ReceptorEstimator+register_system")
    del c.events[:]          # only the events of the judged call
    arg = {"l2": "l2", "none": None, "min": "min", "max": "max", "var": "var"}.get(opt, val)
    kw = dict(solver=cp.CLARABEL, tol_gap_abs=1e-10, tol_gap_rel=1e-10, tol_feas=1e-10) if inp["tight"] else {}
    out = gen.est_query(c, est, "fit_underdetermined", B.copy(), attrs=("X", "B"), registered=bool(inp.get("registered")),
                        underdetermined_opt=arg, l2_eps=eps, _where=f"fit_underdetermined(opt={opt})", **kw)
    if not c.require(isinstance(out, tuple) and len(out) == 2, "returns (X, B_pred)", mechanism="return-type"):
        return
    X, Bp = np.asarray(out[0], float), np.asarray(out[1], float)
    N = len(B)
    if not c.require(X.shape == (N, n) and Bp.shape == (N, m) and np.all(np.isfinite(X)), "finite (N, n_sources) result",
                     mechanism="shape", X=list(X.shape)):
        return
    rngx = ubv - lbv
    row_status = [f.get("status") for k, f in c.events if k == "solve.status" and f.get("where") == "_solve_problem"]
    if len(row_status) != N:
        row_status = [None] * N
    for st in set(row_status):
        c.cell("status=" + str(st))

    def mech(base, r, excess=1.0):
        """Status-aware mechanism key.  'optimal_inaccurate' explains deviations of the order of the tolerance only: more
        than 4x the tolerance is keyed ':gross' (never a known finding)."""
        st = row_status[r]
        if st in (None, "optimal"):
            return base
        return f"{base.split(':')[0]}@{st}" + (":gross" if (st == "optimal_inaccurate" and excess > 4.0) else "")
    slack_any = False
    gaps = []
    for r in range(N):
        x, b = X[r], B[r]
        viol = np.maximum(lbv - x, x - ubv)
        c.require(np.all(viol <= 1e-5 * rngx), "intensities within the bounds", mechanism=mech("bounds", r, float(np.max(viol / (1e-5 * rngx)))), row=r,
                  worst=float(np.max(viol)))
        res = float(np.linalg.norm(w * (Mt @ x + c0 - b)))
        tol_res = eps * (1 + 1e-3) + 1e-7 * (1 + float(np.max(np.abs(w * b))))     # solver feasibility tolerance is relative
        c.margin("fit residual / l2_eps", res, tol_res)
        c.require(res <= tol_res, "the target is reproduced within the requested tolerance l2_eps",
                  mechanism=mech("not-reproduced", r, res / tol_res), row=r, residual=res, l2_eps=eps, opt=opt)
        c.require(np.all(np.abs(Bp[r] - (Mt @ x + c0)) <= 1e-10 * (np.abs(Mt) @ np.abs(x) + np.abs(c0)) + 1e-12),
                  "predicted capture is the model's capture of the returned intensities", mechanism="prediction", row=r)
        xo = inner_optimum(opt, val, Mt, c0, lbv, ubv, b, w, eps)
        if xo is None:
            c.inconclusive("inner-set oracle failed", abort=False)
            continue
        # the witness must be feasible for the exact constraint set
        if np.linalg.norm(w * (Mt @ xo + c0 - b)) > eps or np.any(xo < lbv) or np.any(xo > ubv):
            c.inconclusive("oracle point not feasible for the exact set", abort=False)
            continue
        fo, f = objective(opt, xo, val), objective(opt, np.clip(x, lbv, ubv), val)
        tol = 1e-3 * (1 + abs(fo))
        gaps.append(f - fo)
        c.margin("secondary objective gap / tol", f - fo, tol)
        c.require(f - fo <= tol, "no feasible intensity vector has a better secondary objective", mechanism=mech(f"suboptimal:{opt}", r, (f - fo) / tol),
                  row=r, obj=f, obj_witness=fo, witness_x=xo, x=x)
        lo, hi = oracles.lp_range(Mt, c0, lbv, ubv, b)
        if lo is not None and np.max(hi - lo) > 1e-3 * np.max(rngx):
            slack_any = True
    c.nontrivial(slack_any)
    c.note("objective_gap_vs_inner_optimum", gaps)
    c.note("first_row", {"x": X[0], "opt": opt, "value": val, "l2_eps": eps})


M.add("secondary_goal", gen_case, chk_case, weight=6, min_held=150)


def gen_rereg(rng, i):
    s = gen_case(rng, i)
    s["rereg_seed"] = int(rng.integers(0, 2 ** 31 - 1))
    s["wkind"], s["W"] = "none", None
    return s


def chk_rereg(inp, c):
    """The fit uses the CURRENTLY registered system: fit, change one registration on the same estimator, fit again."""
    arg = {"l2": "l2", "none": None, "min": "min", "max": "max", "var": "var"}.get(inp["opt"], inp["val"])
    def retarget(t, rr):
        # the property is about in-gamut targets: draw them from the gamut of the system registered NOW
        Mt, c0, lbv, ubv = gen.sys_arrays(t)
        t["B"] = gen.interior_x(rr, lbv, ubv, len(inp["B"]), margin=0.1) @ Mt.T + c0
        if inp["opt"] == "vector":
            t["val"] = rr.uniform(lbv, ubv) + (rr.random(len(lbv)) < 0.4) * rr.normal(0, 1, len(lbv)) * (ubv - lbv)

    gen.rereg_check(c, dreye, inp, lambda est: est.fit_underdetermined(inp["B"], underdetermined_opt=arg, l2_eps=inp["l2_eps"]),
                    chk_case, retarget=retarget)


M.add("secondary_goal_after_reregistration", gen_rereg, chk_rereg, weight=1, min_held=20)
