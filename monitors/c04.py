"""C04 — the default fit is the global bounded weighted least-squares optimum.

Events: (X, B_pred) returned by ReceptorEstimator.fit(B) / .fit() and by lsq_linear(...,
return_pred=True).  Oracle: scipy BVLS (active set, exact) as witness generator, closed-form
Frank-Wolfe gap as held-certificate, zonotope depth for the in-gamut <=> zero-error clause.
Tolerances are the property's own (2e-2 / 1 % default, 2e-3 / 1e-6 high accuracy).
"""
import numpy as np

from harness import runtime, oracles, gen
from harness.core import Monitor

dreye = None
lsq = None
cp = None

SETTINGS = {
    "default": ({}, 2e-2, 1e-2),
    "clarabel-tight": (None, 2e-3, 1e-6),
    "osqp-tight": (None, 2e-3, 1e-6),
}


def _setup():
    global dreye, lsq, cp
    dreye = runtime.load_dreye()
    import dreye.api.optimize.lsq_linear as lsq_  # noqa
    import cvxpy as cp_
    lsq, cp = lsq_, cp_
    SETTINGS["clarabel-tight"] = (dict(solver=cp.CLARABEL, tol_gap_abs=1e-9, tol_gap_rel=1e-9, tol_feas=1e-9),
                                  2e-3, 1e-6)
    SETTINGS["osqp-tight"] = (dict(solver=cp.OSQP, eps_abs=1e-10, eps_rel=1e-10, polish=True, max_iter=200000),
                              2e-3, 1e-6)


M = Monitor(
    pid="C04",
    setup=_setup,
    title="The default fit is the global bounded weighted least-squares optimum",
    rule=("cases: one well-scaled system (1-5 receptors x 1-8 sources; bounds finite or default (0, inf); lb zero/positive; W none / "
          "per-receptor / per-sample; K none/scalar/vector/matrix; baseline zero/scalar/vector) with 1-6 targets drawn from "
          "{interior, on facet, corner, outside, far outside, below baseline, negative}; solver settings default and two "
          "high-accuracy pass-throughs. non-trivial = a bound is active at the optimum, or W/K/baseline non-default, or n>m. "
          "distinct = hash of rounded inputs"),
    budget={"quick": (3200, 75), "thorough": (60000, 1500)},
    anchors=[("dreye.api.optimize.lsq_linear", "lsq_linear"), ("dreye.api.optimize.lsq_linear", "_prepare_variables"),
             ("dreye.api.optimize.lsq_linear", "_prepare_parameters"), ("dreye.api.optimize.lsq_linear", "_solve_problem"),
             ("dreye.api.optimize.utils", "prepare_parameters_for_linear"), ("dreye.api.utils", "predict_values"),
             ("dreye.api.estimator", "ReceptorEstimator.fit")],
    deciding=["lsq_linear.lsq_linear", "lsq_linear._solve_problem", "estimator.ReceptorEstimator.fit"],
    required_cells={"all": ["setting=default", "setting=clarabel-tight", "setting=osqp-tight", "under", "exact", "over",
                            "ub=finite", "ub=inf", "lb=pos", "lb=zero", "W=none", "W=receptor", "W=sample",
                            "K=none", "K=scalar", "K=vector", "K=matrix", "baseline=zero", "baseline=scalar", "baseline=vector",
                            "class=interior", "class=facet", "class=corner", "class=outside", "class=below-baseline",
                            "class=negative", "api=fit(B)", "api=lsq_linear", "api=register_targets+fit()", "m=1"]},
    required_events=["solve.status"],
    assumptions=["regime recomputed inside the contract: extent 1..100, |targets|<=100, bounds in [0.05,10] (lb may be 0), cond(K.A)<=1e3",
                 "optimality judged on the weighted error norm ||W(K(Ax+b0)-b)||_2 with the property's absolute tolerances",
                 "BVLS (scipy) is the witness generator; a violation needs its point to be in bounds and better by > tolerance"],
)


def gen_case(rng, i):
    ubkind = "inf" if i % 4 == 3 else "finite"
    m = 1 if i % 11 == 0 else None
    wide = bool(i % 3 == 1)
    s = gen.make_system(rng, m=m, ubkind=ubkind, ub_wide=wide)
    s["ub_wide"] = wide
    Mt, c0, lbv, ubv = gen.sys_arrays(s)
    m_, n = Mt.shape
    N = int(rng.integers(1, 7))
    if i % 120 == 59:
        N = int(rng.integers(128, 260))        # many targets in one call (internal fast paths / presolves above a size)
    T, cls = [], []
    finite = ubkind == "finite"
    Z = oracles.Zonotope(Mt, c0, lbv, ubv) if finite else None
    ext = Z.extent if finite else float(np.max(np.sum(np.abs(Mt), axis=1)))
    for _ in range(N):
        k = ["interior", "facet", "corner", "outside", "far", "below-baseline", "negative"][rng.integers(7)]
        if k == "interior" or (k == "facet" and (not finite or not len(Z.U))) or (k == "corner" and not finite):
            x = gen.interior_x(rng, lbv, ubv, 1)[0]
            T.append(Mt @ x + c0); cls.append("interior")
        elif k == "facet":
            p, u = Z.facet_points(rng, 1)
            T.append(p[0]); cls.append("facet")
        elif k == "corner":
            T.append(Mt @ gen.corner_x(rng, lbv, ubv, 1)[0] + c0); cls.append("corner")
        elif k in ("outside", "far"):
            x = gen.interior_x(rng, lbv, ubv, 1)[0]
            d = rng.normal(0, 1, m_)
            d /= np.linalg.norm(d)
            T.append(Mt @ x + c0 + d * ext * (rng.uniform(0.05, 0.6) if k == "outside" else rng.uniform(1, 2)))
            cls.append("outside")
        elif k == "below-baseline":
            T.append(c0 + Mt @ lbv - np.abs(rng.normal(0.1, 0.1, m_)) * ext); cls.append("below-baseline")
        else:
            T.append(-np.abs(rng.normal(0.2, 0.2, m_)) * ext); cls.append("negative")
    if i % 9 == 5:
        # degenerate targets: exactly zero, exactly the (adapted) baseline - the latter is an all-zero row for the solver
        T[int(rng.integers(N))] = [np.zeros(m_), c0.copy()][rng.integers(2)]
    B = np.clip(np.array(T), -100, 100)
    if i % 7 == 3:
        B = np.round(B)      # integer-valued targets (handed over as int64 by the harness); class labels become approximate
    wk = ["none", "receptor", "sample"][rng.integers(3)]
    W = None if wk == "none" else (rng.uniform(0.2, 5, m_) if wk == "receptor" else rng.uniform(0.2, 5, (N, m_)))
    api = ["fit(B)", "lsq_linear", "register_targets+fit()"][rng.integers(3)]
    if wk == "sample" and api == "fit(B)":
        api = "register_targets+fit()"
    s.update({"B": B, "classes": cls, "W": W, "wkind": wk, "api": api,
              "setting": ["default", "default", "clarabel-tight", "osqp-tight"][rng.integers(4)],
              "rank1": bool(N == 1 and rng.integers(2)), "prior_targets": bool(rng.integers(2))})
    return s


def _run(c, inp, B, W, kw):
    api = inp["api"]
    if api == "lsq_linear":
        Karg = None if inp["K"] is None else np.atleast_1d(inp["K"])
        return c.call(lsq.lsq_linear, inp["A"].copy(), B.copy(), lb=inp["lb"], ub=inp["ub"],
                      W=None if W is None else W.copy(), K=Karg, baseline=inp["baseline"],
                      return_pred=True, _where="lsq_linear", **kw)
    wrec = W if (W is not None and W.ndim == 1) else None
    est = inp.get("_live_estimator")
    if est is None:
        est = c.call(gen.make_estimator, dreye, inp, w=(1.0 if wrec is None else wrec),
                     _where="ReceptorEstimator+register_system")
    if api == "fit(B)":
        return c.call(est.fit, B.copy(), _where="ReceptorEstimator.fit(B)", **kw)
    if inp.get("prior_targets") and np.ndim(B) == 2:
        # other targets with per-sample weights were registered before: registering targets replaces both (W=None -> w)
        c.cell("prior-targets-with-weights")
        Bo = B[::-1] * 1.1 + 0.3
        c.call(est.register_targets, Bo, W=np.linspace(0.3, 3.0, Bo.size).reshape(Bo.shape), _where="register_targets (earlier)")
    c.call(est.register_targets, B.copy(), W=(W.copy() if (W is not None and W.ndim == 2) else None),
           _where="register_targets")
    r = c.call(est.fit, _where="ReceptorEstimator.fit()", **kw)
    c.require(r is est, "fit() without targets returns the estimator", mechanism="fit-returns-self")
    return est.X, est.B


def chk_case(inp, c):
    ok, info = gen.regime_report(inp["A"], inp["lb"], inp["ub"], inp["K"], inp["baseline"], inp["B"])
    if not ok:
        c.unmet("outside the well-scaled regime: " + str({k: v for k, v in info.items() if k.endswith("_ok") and not v}))
    Mt, c0, lbv, ubv = gen.sys_arrays(inp)
    m, n = Mt.shape
    B, W = inp["B"], inp["W"]
    N = B.shape[0]
    kw, tau_e, tau_b_rel = SETTINGS[inp["setting"]]
    c.cell(*gen.sys_cells(inp), "setting=" + inp["setting"], "W=" + inp["wkind"], "api=" + inp["api"])
    if np.all(np.isfinite(ubv)):
        c.cell("ub-scale=" + ("<0.2" if np.max(ubv) < 0.2 else "<1" if np.max(ubv) < 1 else ">=1"))
    for k in set(inp["classes"]):
        c.cell("class=" + k)
    Barg = B[0] if (inp["rank1"] and inp["api"] != "register_targets+fit()") else B
    del c.events[:]          # only the events of the judged call (re-registration clauses make earlier calls)
    out = _run(c, inp, Barg, W, dict(kw))
    c.require(isinstance(out, tuple) and len(out) == 2, "returns (X, B_pred)", mechanism="return-type")
    if not (isinstance(out, tuple) and len(out) == 2):
        return
    X, Bp = np.asarray(out[0], dtype=float), np.asarray(out[1], dtype=float)
    okshape = c.require(X.shape == (N, n) and Bp.shape == (N, m), "shapes (n_samples, n_sources) / (n_samples, n_filters)",
                        mechanism="shape", X=list(X.shape), B=list(Bp.shape))
    okfin = c.require(np.all(np.isfinite(X)) and np.all(np.isfinite(Bp)), "finite results", mechanism="nonfinite")
    if not (okshape and okfin):
        return
    statuses = sorted({f.get("status") for k, f in c.events if k == "solve.status"})
    for st in statuses:
        c.cell("status=" + str(st))
    # per-row solver status (batch size 1: one solve per row, in order)
    row_status = [f.get("status") for k, f in c.events if k == "solve.status" and f.get("where") == "_solve_problem"]
    if len(row_status) != N:
        row_status = [None] * N

    def mech(base, r, excess=1.0):
        """Status-aware mechanism key.  'optimal_inaccurate' explains deviations of the order of the tolerance only:
        a deviation of more than 4x the tolerance is keyed ':gross' (never a known finding)."""
        st = row_status[r]
        if st in (None, "optimal"):
            return base
        # the default path is solved by Clarabel (repo fix c46726f): a non-optimal status there is never a known finding;
        # solver settings chosen by the caller (pass-through) are keyed ':explicit-solver'
        sfx = "" if inp["setting"] == "default" else ":explicit-solver"
        return f"{base}@{st}{sfx}" + (":gross" if (st == "optimal_inaccurate" and excess > 4.0) else "")
    finite = np.all(np.isfinite(ubv))
    Z = oracles.Zonotope(Mt, c0, lbv, ubv) if finite else None
    active_any = False
    gaps, fw = [], []
    for r in range(N):
        w = None if W is None else (W if W.ndim == 1 else W[r])
        xo, eo = oracles.bvls(Mt, c0, lbv, ubv, B[r], w)
        if xo is None:
            c.inconclusive("BVLS oracle did not converge", abort=False)
            continue
        x = X[r]
        # (2) bounds
        if finite:
            tb = tau_b_rel * (ubv - lbv)
        else:
            tb = np.full(n, tau_b_rel * (np.max(np.abs(xo)) + 1.0))
        viol = np.maximum(lbv - x, np.where(np.isfinite(ubv), x - ubv, -np.inf))
        c.margin("bound violation / tau_b", float(np.max(viol / tb)), 1.0)
        c.require(np.all(viol <= tb), "returned intensities respect the bounds (within tau_b)", mechanism=mech("bounds", r, float(np.max(viol / tb))),
                  row=r, worst=float(np.max(viol)), tau_b=float(np.min(tb)), x=x, lb=lbv, ub=ubv)
        # (3) global optimality, witness = BVLS point (exactly in bounds)
        e = oracles.werr(Mt, c0, x, B[r], w)
        gaps.append(e - eo)
        c.margin("error gap / tau_e", e - eo, tau_e)
        c.require(e - eo <= tau_e, "weighted capture error is the global minimum over in-bound intensities (within tau_e)",
                  mechanism=mech("suboptimal", r, (e - eo) / tau_e), row=r, err=e, err_opt=eo, witness_x=xo, x=x, cls=inp["classes"][r],
                  statuses=statuses)
        xc = np.clip(x, lbv, ubv)
        ec = oracles.werr(Mt, c0, xc, B[r], w)
        if ec < eo - 1e-7 * (1 + eo):
            c.inconclusive(f"oracle not optimal: clipped result better than BVLS by {eo - ec:.2e}", abort=False)
        if finite:
            fw.append(oracles.fw_gap_ls(Mt, c0, lbv, ubv, B[r], xc, w))
        # (4) prediction is the model's capture of the returned intensities
        want = Mt @ x + c0
        c.require(np.all(np.abs(Bp[r] - want) <= 1e-10 * (np.abs(Mt) @ np.abs(x) + np.abs(c0)) + 1e-12),
                  "predicted capture equals K(A x + baseline) of the returned intensities", mechanism="prediction",
                  row=r, got=Bp[r], want=want)
        # (5) in gamut <=> zero error
        if finite and Z.full_dim:
            dep = float(Z.depth(B[r])[0]) / Z.extent
            wmax = 1.0 if w is None else float(np.max(w))
            if dep >= 1e-6:
                c.require(e <= tau_e, "an in-gamut target is reproduced with zero error (within tau_e)",
                          mechanism=mech("ingamut-nonzero-error", r, e / tau_e), row=r, err=e, depth_rel=dep)
            elif dep <= -1e-3:
                ep = float(np.linalg.norm((Bp[r] - B[r]) * (1.0 if w is None else w)))
                c.require(ep >= eo - tau_e and eo > 0, "an out-of-gamut target is not reported as reproduced",
                          mechanism=mech("outgamut-zero-error", r), row=r, reported_err=ep, err_opt=eo, depth_rel=dep)
        elif not finite:
            t, _ = oracles.lp_feasible_residual(Mt, c0, lbv, ubv, B[r])
            if t is not None and t <= 1e-9:
                c.require(e <= tau_e, "an in-gamut target is reproduced with zero error (within tau_e)",
                          mechanism=mech("ingamut-nonzero-error", r, e / tau_e), row=r, err=e)
        active_any = active_any or bool(np.any((np.abs(xo - lbv) <= 1e-9) | (np.abs(xo - ubv) <= 1e-9)))
    c.nontrivial(active_any or inp["wkind"] != "none" or inp["kkind"] != "none" or inp["basekind"] != "zero" or n > m)
    c.note("error_gap_vs_bvls", gaps[:4])
    if fw:
        c.note("frank_wolfe_gap_0.5sq", fw[:4])
    c.note("solver_status", statuses)
    c.note("first_row", {"x": X[0], "B_pred": Bp[0], "target": B[0]})


M.add("fit_vs_bvls", gen_case, chk_case, weight=7, min_held=200)


def gen_rereg(rng, i):
    s = gen_case(rng, i)
    s["rereg_seed"] = int(rng.integers(0, 2 ** 31 - 1))
    s["api"] = ["fit(B)", "register_targets+fit()"][rng.integers(2)]
    if s["wkind"] == "receptor":          # per-receptor weights are a constructor argument: keep the default here
        s["wkind"], s["W"] = "none", None
    if s["wkind"] == "sample":
        s["api"] = "register_targets+fit()"
    return s


def chk_rereg(inp, c):
    """The fit uses the CURRENTLY registered values: fit, change one registration on the same estimator, fit again and
    judge the second answer against the new system."""
    gen.rereg_check(c, dreye, inp, lambda est: est.fit(inp["B"]), chk_case)


M.add("fit_after_reregistration", gen_rereg, chk_rereg, weight=1, min_held=40)


# the repository's own tests as one more workload: contracts armed in situ (harness/observe.py)
from harness import observe as _observe  # noqa: E402
_observe.add_insitu_clause(M, ['lsq_linear.lsq_linear'], runtime)
