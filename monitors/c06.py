"""C06 — range of solutions is the exact per-source extent of the solution polytope.

Events: (Xmin, Xmax[, Xs]) returned by dreye.range_of_solutions / ReceptorEstimator.range_of_solutions.
Oracle: 2n HiGHS LPs over {x in box : K(A x + baseline) = b}; zonotope depth classifies targets.
"""
import warnings

import numpy as np

from harness import runtime, oracles, gen
from harness.core import Monitor, UnderTestRaised

dreye = None
convex = None
cp = None


def _setup():
    global dreye, convex, cp
    dreye = runtime.load_dreye()
    import dreye.api.convex as convex_  # noqa
    import cvxpy as cp_
    convex, cp = convex_, cp_


M = Monitor(
    pid="C06",
    setup=_setup,
    title="Range of solutions is the exact per-source extent of the solution polytope",
    rule=("cases: one bounded underdetermined system (2-4 receptors, 1-3 surplus sources, lb zero/positive, K, baseline) and one "
          "target class: strictly inside (depth>=1e-3*extent), on a facet, gamut corner, black / white / single saturated source, "
          "outside; error mode raise/ignore/warn; spaced solutions n in 2..10. non-trivial = surplus>=2 or lb>0 or a boundary "
          "target. distinct = hash of rounded inputs"),
    budget={"quick": (2100, 60), "thorough": (84000, 1500)},
    anchors=[("dreye.api.convex", "range_of_solutions"), ("dreye.api.convex", "_range_of_solutions"),
             ("dreye.api.convex", "_spaced_solutions"), ("dreye.api.estimator", "ReceptorEstimator.range_of_solutions")],
    deciding=["convex.range_of_solutions", "convex._range_of_solutions", "convex._spaced_solutions",
              "estimator.ReceptorEstimator.range_of_solutions"],
    required_cells={"all": ["class=interior", "class=facet", "class=corner", "class=black", "class=white", "class=single",
                            "class=outside", "surplus=1", "surplus=2", "surplus=3", "lb=pos", "lb=zero", "error=raise",
                            "error=ignore", "error=warn", "spaced", "api=function", "api=estimator", "rank1", "K=matrix"]},
    required_events=["range.candidates"],
    assumptions=["HiGHS LP optimum as oracle; equality relaxed by 1e-9*extent for boundary targets",
                 "targets with |depth| < 1e-9*extent may be answered or rejected, but an answer must satisfy every clause"],
)

CLASSES = ["interior", "interior", "facet", "corner", "black", "white", "single", "outside"]


def gen_case(rng, i):
    m = int(rng.integers(2, 5))
    n = m + int(rng.integers(1, 4))
    s = gen.make_system(rng, m=m, n=n, ubkind="finite")
    Mt, c0, lbv, ubv = gen.sys_arrays(s)
    Z = oracles.Zonotope(Mt, c0, lbv, ubv)
    k = CLASSES[i % len(CLASSES)]
    if k == "interior":
        b = Mt @ gen.interior_x(rng, lbv, ubv, 1, margin=0.1)[0] + c0
    elif k == "facet":
        b = Z.facet_points(rng, 1)[0][0]
    elif k == "corner":
        b = Mt @ gen.corner_x(rng, lbv, ubv, 1)[0] + c0
    elif k == "black":
        b = Mt @ lbv + c0
    elif k == "white":
        b = Mt @ ubv + c0
    elif k == "single":
        x = lbv.copy()
        j = int(rng.integers(n))
        x[j] = ubv[j]
        b = Mt @ x + c0
    else:
        p, u = Z.facet_points(rng, 1)
        b = p[0] + u[0] * Z.extent * float(rng.uniform(0.01, 1.0))
    # the number of spaced solutions grows like nsp**surplus: keep deep recursions small
    nsp = int(rng.integers(2, {1: 11, 2: 7, 3: 4}[n - m])) if rng.integers(3) == 0 else None
    # a second, interior row so that batches mix classes
    extra = Mt @ gen.interior_x(rng, lbv, ubv, 1, margin=0.1)[0] + c0
    if i % 7 == 3:
        b, extra = np.round(b), np.round(extra)     # integer-valued targets (handed over as int64 by the harness)
    s["registered"] = bool(rng.integers(5) == 0)
    # a third, clearly out-of-gamut row (used with error='ignore'/'warn' only): batches that mix answered and best-fitted rows
    p3, u3 = Z.facet_points(rng, 1)
    s["extra2"] = p3[0] + u3[0] * Z.extent * float(rng.uniform(0.2, 1.0))
    s.update({"b": b, "cls": k, "extra": extra, "two_rows": bool(rng.integers(3) == 0),
              "error": ["raise", "ignore", "warn"][rng.integers(3)], "nsp": nsp,
              "api": ["function", "estimator"][rng.integers(2)], "rank1": bool(rng.integers(2))})
    return s


def _call(c, inp, B, error, nsp):
    if inp["api"] == "function":
        Karg = None if inp["K"] is None else np.atleast_1d(inp["K"])
        return c.call(convex.range_of_solutions, B.copy(), inp["A"].copy(), inp["lb"], inp["ub"], K=Karg,
                      baseline=inp["baseline"], error=error, n=nsp, _where="range_of_solutions",
                      _raises_ok=(ValueError,))
    est = gen.live_or_new(c, dreye, inp)
    return gen.est_query(c, est, "range_of_solutions", B.copy(), registered=bool(inp.get("registered")), error=error, n=nsp,
                         _where="ReceptorEstimator.range_of_solutions",
                  _raises_ok=(ValueError,))


def chk_case(inp, c):
    Mt, c0, lbv, ubv = gen.sys_arrays(inp)
    m, n = Mt.shape
    Z = oracles.Zonotope(Mt, c0, lbv, ubv)
    if not Z.full_dim:
        c.unmet("gamut not full-dimensional")
    b, k, error, nsp = inp["b"], inp["cls"], inp["error"], inp["nsp"]
    dep = float(Z.depth(b)[0]) / Z.extent
    rngx = ubv - lbv
    c.cell(*gen.sys_cells(inp), "class=" + k, f"surplus={n - m}", "error=" + error, "api=" + inp["api"])
    if nsp is not None:
        c.cell("spaced")
    two = inp["two_rows"]
    if two and float(Z.depth(inp["extra"])[0]) / Z.extent < 1e-6:
        two = False        # the companion row must be strictly inside (an integer-rounded one may not be): judge b alone
    three = (two and error != "raise" and inp.get("extra2") is not None
             and float(Z.depth(inp["extra2"])[0]) / Z.extent <= -1e-3)
    if three:
        B = np.array([b, inp["extra"], inp["extra2"]])        # [judged row, inside, outside]
        c.cell("three-rows")
    elif two:
        B = np.array([b, inp["extra"]])
        c.cell("two-rows")
    elif inp["rank1"]:
        B = b
        c.cell("rank1")
    else:
        B = b[None]
    del c.events[:]          # only the events of the judged call (re-registration clauses make earlier calls)
    raised = None
    with warnings.catch_warnings(record=True) as wl:
        warnings.simplefilter("always")
        try:
            out = _call(c, inp, B, error, nsp)
        except UnderTestRaised as e:
            raised = e
            if isinstance(e.exc, np.linalg.LinAlgError):
                c.fail(f"range_of_solutions raised LinAlgError: {str(e.exc)[:80]}",
                       mechanism="raise:LinAlgError:" + ("spaced" if nsp is not None else "range"))
    warned = any("outside" in str(w.message) for w in wl)
    bad_status = sorted({str(f.get("status")) for kk, f in c.events if kk == "solve.status"} - {"optimal", "optimal_inaccurate", "None"})
    sfx = ("@" + bad_status[0]) if bad_status else ""      # best-fit fallback solved by the default QP solver
    ncand = [f for kk, f in c.events if kk == "range.candidates"]

    inside, outside = dep >= 1e-9, dep <= -1e-6
    if raised is not None:
        c.cell("outcome=raised")
        c.require(not inside, "an in-gamut target does not raise", mechanism="ingamut-raised", depth_rel=dep, cls=k,
                  msg=str(raised)[:120])
        c.require(error == "raise" or not outside, "error='ignore'/'warn' does not raise for out-of-gamut targets",
                  mechanism="ignore-raised", error=error, msg=str(raised)[:120])
        c.nontrivial(k != "interior")
        c.note("raised", str(raised)[:100])
        return
    c.cell("outcome=answered")
    if outside:
        c.require(error != "raise", "an out-of-gamut target raises ValueError (error='raise')", mechanism="outgamut-answered",
                  depth_rel=dep)
        if error == "warn":
            c.require(warned, "error='warn' issues the out-of-gamut warning", mechanism="no-warning")
    want_len = 3 if nsp is not None else 2
    if not c.require(isinstance(out, tuple) and len(out) == want_len, "returns (Xmin, Xmax[, Xs])", mechanism="return-type"):
        return
    Xmin, Xmax = np.asarray(out[0], float), np.asarray(out[1], float)
    shp = (n,) if (np.ndim(B) == 1) else (len(B), n)
    if not c.require(Xmin.shape == shp and Xmax.shape == shp, "shapes follow the target rank", mechanism="shape",
                     got=list(Xmin.shape), want=list(shp)):
        return
    xmin = Xmin if Xmin.ndim == 1 else Xmin[0]
    xmax = Xmax if Xmax.ndim == 1 else Xmax[0]
    xs = None
    if nsp is not None:
        xs = out[2] if np.ndim(B) == 1 else out[2][0]
    c.require(np.all(np.isfinite(xmin)) and np.all(np.isfinite(xmax)), "finite", mechanism="nonfinite")

    if outside:
        # best fit as both ends
        c.require(np.allclose(xmin, xmax, rtol=0, atol=1e-12), "out-of-gamut: both ends are the same best fit",
                  mechanism="outgamut-ends-differ" + sfx)
        xo, eo = oracles.bvls(Mt, c0, lbv, ubv, b)
        if xo is None:
            c.inconclusive("BVLS failed")
        e = oracles.werr(Mt, c0, xmin, b)
        c.require(e - eo <= 2e-2, "out-of-gamut: the returned point is a best fit (within 2e-2 capture units)",
                  mechanism="outgamut-not-bestfit" + sfx, err=e, err_opt=eo)
        c.require(np.all(xmin >= lbv - 0.01 * rngx) and np.all(xmin <= ubv + 0.01 * rngx), "best fit within bounds",
                  mechanism="outgamut-bounds" + sfx)
        if xs is not None:
            xs = np.asarray(xs, float)
            c.require(xs.ndim == 2 and xs.shape[1] == n and np.allclose(xs, xmin[None], atol=1e-12),
                      "out-of-gamut: spaced solutions are the best fit", mechanism="outgamut-spaced")
        c.nontrivial()
        c.note("outside", {"depth_rel": dep, "err": e, "err_opt": eo})
        return

    # in gamut or in the indeterminate band: the answer must satisfy every clause
    boundary = dep < 1e-3
    if (not inside) and error != "raise" and np.array_equal(xmin, xmax):
        # band target treated as out-of-gamut by the code: 'returns the best fit as both ends'
        c.cell("band-bestfit")
        xo, eo = oracles.bvls(Mt, c0, lbv, ubv, b)
        e = oracles.werr(Mt, c0, xmin, b)
        c.require(xo is not None and e - eo <= 2e-2, "band target answered with a best fit (within 2e-2 capture units)",
                  mechanism="band-not-bestfit" + sfx, err=e, err_opt=eo)
        c.require(np.all(xmin >= lbv - 0.01 * rngx) and np.all(xmin <= ubv + 0.01 * rngx), "best fit within bounds",
                  mechanism="band-bestfit-bounds" + sfx)
        c.nontrivial()
        c.note("band_bestfit", {"depth_rel": dep, "err": e})
        return
    c.require(np.all(xmin <= xmax + 1e-9 * rngx), "min <= max for every source", mechanism="min-gt-max",
              cls=k, depth_rel=dep, xmin=xmin, xmax=xmax, candidates=ncand[:2])
    c.require(np.all(xmin >= lbv - 1e-9 * rngx) and np.all(xmax <= ubv + 1e-9 * rngx), "both ends lie within the bounds",
              mechanism="ends-out-of-bounds", xmin=xmin, xmax=xmax)
    if not boundary:
        lo, hi = oracles.lp_range(Mt, c0, lbv, ubv, b, tol=0.0)
        if lo is None:
            c.inconclusive("LP oracle infeasible for an in-gamut target")
        tol = 1e-6 * rngx
        dmin, dmax = np.abs(xmin - lo), np.abs(xmax - hi)
        c.margin("range vs LP / tol", float(max(np.max(dmin / tol), np.max(dmax / tol))), 1.0)
        c.require(np.all(dmin <= tol), "reported minimum is the smallest intensity over all in-bound reproducing vectors (LP)",
                  mechanism="min-not-lp", cls=k, got=xmin, lp=lo, depth_rel=dep, candidates=ncand[:1])
        c.require(np.all(dmax <= tol), "reported maximum is the largest intensity over all in-bound reproducing vectors (LP)",
                  mechanism="max-not-lp", cls=k, got=xmax, lp=hi, depth_rel=dep, candidates=ncand[:1])
    else:
        # boundary targets: the solution set of the *rounded* target is ill-conditioned; assert containment both ways
        # with LPs whose equality is relaxed (outer set) and exact up to solver tolerance (inner set)
        tol = 1e-3 * rngx
        lo_r, hi_r = oracles.lp_range(Mt, c0, lbv, ubv, b, tol=1e-7 * Z.extent)
        if lo_r is None:
            c.inconclusive("relaxed LP oracle infeasible for a boundary target")
        c.require(np.all(xmin >= lo_r - tol) and np.all(xmax <= hi_r + tol),
                  "boundary target: reported ends are attained by in-bound reproducing vectors (within the relaxed LP range)",
                  mechanism="ends-beyond-lp-boundary", cls=k, xmin=xmin, xmax=xmax, lp_min=lo_r, lp_max=hi_r)
        lo, hi = oracles.lp_range(Mt, c0, lbv, ubv, b, tol=0.0)
        if lo is not None:
            c.require(np.all(xmin <= lo + tol) and np.all(xmax >= hi - tol),
                      "boundary target: reported range covers every in-bound reproducing vector (strict LP range)",
                      mechanism="range-too-narrow-boundary", cls=k, xmin=xmin, xmax=xmax, lp_min=lo, lp_max=hi,
                      candidates=ncand[:1])
        else:
            lo, hi = lo_r, hi_r
    # every fitted solution lies between them (high-accuracy fit through the documented pass-through)
    if not boundary:
        est = gen.make_estimator(dreye, inp)
        ok, res = c.try_call(est.fit, b[None].copy(), solver=cp.CLARABEL, tol_gap_abs=1e-9, tol_gap_rel=1e-9, tol_feas=1e-9)
        if ok:
            xf = np.asarray(res[0])[0]
            c.require(np.all(xf >= xmin - 1e-3 * rngx) and np.all(xf <= xmax + 1e-3 * rngx),
                      "a fitted solution lies between the reported ends", mechanism="fit-outside-range", xf=xf,
                      xmin=xmin, xmax=xmax)
    if xs is not None:
        xs = np.asarray(xs, float)
        if c.require(xs.ndim == 2 and xs.shape[1] == n and xs.shape[0] >= 1 and np.all(np.isfinite(xs)),
                     "spaced solutions: a non-empty (k, n_sources) finite array", mechanism="spaced-shape",
                     got=list(xs.shape), n=nsp):
            scale = float(np.max(np.abs(b))) + 1.0
            tb = 1e-5 * rngx   # the documented accuracy (eps) of the spaced solutions
            c.require(np.all(xs >= lbv - tb) and np.all(xs <= ubv + tb), "every spaced solution lies within the bounds",
                      mechanism="spaced-bounds" + ("-boundary" if boundary else ""),
                      worst=float(max(np.max(lbv - xs), np.max(xs - ubv))))
            res = np.abs(xs @ Mt.T + c0 - b)
            c.require(np.all(res <= 1e-7 * scale), "every spaced solution reproduces the target",
                      mechanism="spaced-residual", worst=float(np.max(res)))
            c.note("n_spaced", [int(xs.shape[0]), nsp])
    c.nontrivial((n - m) >= 2 or inp["lbkind"] == "pos" or boundary)
    c.note("range", {"xmin": xmin, "xmax": xmax, "lp_min": lo, "lp_max": hi, "depth_rel": dep})
    c.note("candidates", ncand[:1])


M.add("range_vs_lp", gen_case, chk_case, weight=6, min_held=300)


def gen_rereg(rng, i):
    s = gen_case(rng, i)
    s["rereg_seed"] = int(rng.integers(0, 2 ** 31 - 1))
    s["api"] = "estimator"
    s["two_rows"] = False      # the extra row is only known to be inside the gamut of the original system
    return s


def chk_rereg(inp, c):
    """The range is computed from the CURRENTLY registered values: query, change one registration on the same estimator,
    query again and judge the second answer against the new system."""
    gen.rereg_check(c, dreye, inp, lambda est: est.range_of_solutions(inp["b"], error="ignore"), chk_case)


M.add("range_after_reregistration", gen_rereg, chk_rereg, weight=1, min_held=40)
