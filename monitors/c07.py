"""C07 — Poisson and excitation models minimise their documented objective; all models agree in gamut.

Events: (X, B_pred) from ReceptorEstimator.fit(B, model='poisson'|'excitation'|'gaussian').
Oracles: L-BFGS-B on the box for the convex weighted Poisson NLL (two starts, analytic gradient);
bisection over HiGHS feasibility LPs for the quasi-convex excitation objective.
"""
import numpy as np
from scipy.optimize import linprog, minimize

from harness import runtime, oracles, gen
from harness.core import Monitor

dreye = None


def _setup():
    global dreye
    dreye = runtime.load_dreye()


M = Monitor(
    pid="C07",
    setup=_setup,
    title="Poisson and excitation models minimise their objective; all agree in gamut",
    rule=("cases: one well-scaled non-negative system (1-4 receptors x 1-6 sources, bounds finite or default, lb zero/positive, "
          "K none/scalar/vector, baseline zero/non-zero) with 1-3 non-negative targets (in gamut / out of gamut); model poisson "
          "(with per-receptor weights) or excitation. non-trivial = baseline non-zero or K given or target out of gamut or "
          "weights given. distinct = hash of rounded inputs"),
    budget={"quick": (420, 75), "thorough": (12000, 1500)},
    anchors=[("dreye.api.optimize.lsq_linear", "lsq_linear"), ("dreye.api.optimize.lsq_linear", "lsq_linear_excitation"),
             ("dreye.api.optimize.lsq_linear", "_solve_problem"), ("dreye.api.estimator", "ReceptorEstimator.fit")],
    deciding=["lsq_linear.lsq_linear", "lsq_linear.lsq_linear_excitation", "estimator.ReceptorEstimator.fit"],
    required_cells={"all": ["model=poisson", "model=excitation", "baseline=zero", "baseline=scalar", "baseline=vector",
                            "K=none", "K=scalar", "K=vector", "target=in", "target=out", "ub=finite", "ub=inf",
                            "agree-in-gamut", "batch=many"]},
    assumptions=["Poisson NLL = -sum_i w_i (b_i log q_i - q_i), q = K(Ax+baseline) (targets not baseline-subtracted)",
                 "excitation objective = max_i |b_i/(1+b_i) - q_i/(1+q_i)|, unit weights",
                 "tolerances: NLL 1e-3*(1+|NLL|); excitation 5e-3; reproduction 5e-2*max(1,|b|_inf) (2e-2 gaussian)"],
)


def nll(Mt, c0, x, b, w):
    q = np.maximum(Mt @ x + c0, 1e-300)
    return float(np.sum(w * (q - b * np.log(q))))


def nll_oracle(Mt, c0, lbv, ubv, b, w, starts):
    n = Mt.shape[1]

    def f(x):
        q = np.maximum(Mt @ x + c0, 1e-12)
        return float(np.sum(w * (q - b * np.log(q)))), Mt.T @ (w * (1 - b / q))
    bounds = [(lbv[j], None if not np.isfinite(ubv[j]) else ubv[j]) for j in range(n)]
    best = None
    for x0 in starts:
        x0 = np.clip(x0, lbv, np.where(np.isfinite(ubv), ubv, np.inf))
        r = minimize(f, x0, jac=True, method="L-BFGS-B", bounds=bounds,
                     options={"maxiter": 5000, "ftol": 1e-15, "gtol": 1e-10})
        x = np.clip(r.x, lbv, np.where(np.isfinite(ubv), ubv, np.inf))
        v = nll(Mt, c0, x, b, w)
        if np.isfinite(v) and (best is None or v < best[1]):
            best = (x, v)
    return best


def exc(v):
    return v / (1 + v)


def exc_obj(Mt, c0, x, b):
    q = Mt @ x + c0
    return float(np.max(np.abs(exc(b) - exc(q))))


def exc_oracle(Mt, c0, lbv, ubv, b):
    """Smallest t such that some in-bound x has |e(b_i)-e(q_i)| <= t for all i (bisection over LPs)."""
    m, n = Mt.shape
    bounds = [(lbv[j], None if not np.isfinite(ubv[j]) else ubv[j]) for j in range(n)]
    eb = exc(b)

    def feasible(t):
        ylo, yhi = eb - t, eb + t
        qlo = np.where(ylo < 1, ylo / (1 - np.minimum(ylo, 0.999999999)), np.inf)
        qhi = np.where(yhi < 1, yhi / (1 - np.minimum(yhi, 0.999999999999)), np.inf)
        A_ub, b_ub = [], []
        for i in range(m):
            if np.isfinite(qhi[i]):
                A_ub.append(Mt[i]); b_ub.append(qhi[i] - c0[i])
            A_ub.append(-Mt[i]); b_ub.append(-(qlo[i] - c0[i]))
        r = linprog(np.zeros(n), A_ub=np.array(A_ub), b_ub=np.array(b_ub), bounds=bounds, method="highs")
        return (r.status == 0), (r.x if r.status == 0 else None)
    ok, x = feasible(1.0)
    if not ok:
        return None
    lo, hi, xbest = 0.0, 1.0, x
    ok0, x0 = feasible(0.0)
    if ok0:
        return 0.0, x0
    for _ in range(44):
        mid = 0.5 * (lo + hi)
        ok, x = feasible(mid)
        if ok:
            hi, xbest = mid, x
        else:
            lo = mid
    return hi, xbest


def gen_case(rng, i):
    model = "poisson" if i % 3 else "excitation"
    ubkind = "inf" if i % 5 == 4 else "finite"
    s = gen.make_system(rng, mrange=(1, 4), nrange=(1, 6), ubkind=ubkind, kkind=["none", "scalar", "vector"][rng.integers(3)])
    Mt, c0, lbv, ubv = gen.sys_arrays(s)
    m, n = Mt.shape
    N = int(rng.integers(1, 4))
    T, cls = [], []
    for _ in range(N):
        if rng.integers(2):
            T.append(Mt @ gen.interior_x(rng, lbv, ubv, 1, margin=0.05)[0] + c0); cls.append("in")
        else:
            x = gen.interior_x(rng, lbv, ubv, 1)[0]
            b = (Mt @ x + c0) * np.exp(rng.normal(0, 0.8, m))
            T.append(np.clip(b, 0, 100)); cls.append("out")
    wk = "receptor" if (model == "poisson" and rng.integers(2)) else "none"
    # the batch size is a performance setting of fit(): poisson is also exercised with batches (the excitation model
    # couples the rows of a batch - C05 known finding - and is kept at its default of one)
    bs = [1, 1, 2, "full"][rng.integers(4)] if model == "poisson" else 1
    s["registered"] = bool(rng.integers(5) == 0)      # register_targets(B); fit(model=...)  -> est.X, est.B
    if i % 9 == 5:
        j0 = int(rng.integers(N))
        T[j0], cls[j0] = np.zeros(m), "out"        # an exactly all-zero target row (no light at all)
    T = np.array(T)
    if i % 7 == 3:
        T = np.round(T)      # photon counts: integer-valued targets (handed over as int64); class labels become approximate
    s.update({"B": T, "classes": cls, "model": model, "wkind": wk, "bs": bs,
              "W": rng.uniform(0.3, 3, m) if wk == "receptor" else None})
    return s


def chk_case(inp, c):
    ok, info = gen.regime_report(inp["A"], inp["lb"], inp["ub"], inp["K"], inp["baseline"], inp["B"])
    if not ok or np.any(inp["A"] < 0) or np.any(inp["B"] < 0):
        c.unmet("outside the well-scaled non-negative regime")
    Mt, c0, lbv, ubv = gen.sys_arrays(inp)
    m, n = Mt.shape
    B, model = inp["B"], inp["model"]
    N = len(B)
    w = np.ones(m) if inp["W"] is None else inp["W"]
    c.cell(*gen.sys_cells(inp), "model=" + model, "W=" + inp["wkind"])
    for k in set(inp["classes"]):
        c.cell("target=" + k)
    est = inp.get("_live_estimator")
    if est is None:
        est = c.call(gen.make_estimator, dreye, inp, w=(1.0 if inp["W"] is None else inp["W"]),
                     _where="ReceptorEstimator+register_system")
    del c.events[:]          # only the events of the judged call
    bs = inp.get("bs", 1)
    c.cell("batch=" + ("1" if bs == 1 else "many"))
    out = gen.est_query(c, est, "fit", B.copy(), attrs=("X", "B"), registered=bool(inp.get("registered")), model=model,
                        batch_size=bs, _where=f"ReceptorEstimator.fit(model={model})")
    if not c.require(isinstance(out, tuple) and len(out) == 2, "returns (X, B_pred)", mechanism="return-type"):
        return
    X, Bp = np.asarray(out[0], float), np.asarray(out[1], float)
    if not c.require(X.shape == (N, n) and Bp.shape == (N, m) and np.all(np.isfinite(X)) and np.all(np.isfinite(Bp)),
                     "finite results of shape (N, n_sources) / (N, n_filters)", mechanism="shape",
                     X=list(X.shape), B=list(Bp.shape)):
        return
    finite = np.all(np.isfinite(ubv))
    statuses = sorted({str(f.get("status")) for k, f in c.events if k == "solve.status"})
    for st in statuses:
        c.cell("status=" + st)
    gaps = []
    row_status = [str(f.get("status")) for k, f in c.events if k == "solve.status" and f.get("where") == "_solve_problem"]
    if len(row_status) != N:
        row_status = [None] * N

    def mech(base, r, excess=1.0):
        """Status-aware mechanism key.  'optimal_inaccurate' explains deviations of the order of the tolerance only:
        a deviation of more than 4x the tolerance is keyed ':gross' (never a known finding)."""
        st = row_status[r]
        if st in (None, "optimal"):
            return base
        return f"{base}@{st}" + (":gross" if (st == "optimal_inaccurate" and excess > 4.0) else "")
    for r in range(N):
        x, b = X[r], B[r]
        xo_ls, eo = oracles.bvls(Mt, c0, lbv, ubv, b, w)
        if xo_ls is None:
            c.inconclusive("BVLS failed", abort=False)
            continue
        tb = 0.01 * (ubv - lbv) if finite else np.full(n, 0.01 * (np.max(np.abs(xo_ls)) + 1))
        viol = np.maximum(lbv - x, np.where(np.isfinite(ubv), x - ubv, -np.inf))
        c.require(np.all(viol <= tb), f"{model}: returned intensities respect the bounds", mechanism=mech(f"{model}-bounds", r, float(np.max(viol / tb))),
                  row=r, worst=float(np.max(viol)), x=x)
        c.require(np.all(np.abs(Bp[r] - (Mt @ x + c0)) <= 1e-10 * (np.abs(Mt) @ np.abs(x) + np.abs(c0)) + 1e-12),
                  f"{model}: predicted capture is the model's capture of the returned intensities",
                  mechanism=f"{model}-prediction", row=r)
        xc = np.clip(x, lbv, ubv)
        ingamut = eo <= 1e-9 * (1 + np.linalg.norm(b))
        if model == "poisson":
            mid = np.where(np.isfinite(ubv), 0.5 * (lbv + ubv), lbv + 1.0)
            best = nll_oracle(Mt, c0, lbv, ubv, b, w, [mid, xo_ls, xc])
            if best is None:
                c.inconclusive("NLL oracle failed", abort=False)
                continue
            xo, vo = best
            v = nll(Mt, c0, xc, b, w)
            tol = 1e-3 * (1 + abs(vo))
            gaps.append(v - vo)
            c.margin("poisson NLL gap / tol", v - vo, tol)
            c.require(v - vo <= tol, "poisson: weighted negative log-likelihood is the global minimum over in-bound intensities",
                      mechanism=mech("poisson-suboptimal", r, (v - vo) / tol), row=r, nll=v, nll_opt=vo, witness_x=xo, x=x, cls=inp["classes"][r],
                      statuses=statuses)
        else:
            res = exc_oracle(Mt, c0, lbv, ubv, b)
            if res is None:
                c.inconclusive("excitation LP oracle failed", abort=False)
                continue
            to, xo = res
            v = exc_obj(Mt, c0, xc, b)
            gaps.append(v - to)
            c.margin("excitation gap / tol", v - to, 5e-3)
            c.require(v - to <= 5e-3, "excitation: largest excitation difference is the global minimum over in-bound intensities",
                      mechanism=mech("excitation-suboptimal", r, (v - to) / 5e-3), row=r, obj=v, obj_opt=to, witness_x=xo, x=x, cls=inp["classes"][r],
                      baseline_kind=inp["basekind"], statuses=statuses)
        if ingamut:
            tol_r = 5e-2 * max(1.0, float(np.max(np.abs(b))))
            dev = float(np.max(np.abs(Mt @ x + c0 - b)))
            c.margin(f"{model} in-gamut reproduction / tol", dev, tol_r)
            c.require(dev <= tol_r, f"{model}: an in-gamut target is reproduced", mechanism=mech(f"{model}-ingamut-not-reproduced", r, dev / tol_r),
                      row=r, dev=dev, baseline_kind=inp["basekind"])
    # all three models agree in gamut
    # (in-gamut rows are decided by the oracle, not by the generator's label: the system may have been re-registered)
    rows_in = []
    for r in range(N):
        _xo, _eo = oracles.bvls(Mt, c0, lbv, ubv, B[r], w)
        if _xo is not None and _eo <= 1e-9 * (1 + np.linalg.norm(B[r])):
            rows_in.append(r)
    if rows_in:
        c.cell("agree-in-gamut")
        outg = c.call(est.fit, B[rows_in].copy(), model="gaussian", _where="ReceptorEstimator.fit(model=gaussian)")
        Bg = np.asarray(outg[1], float)
        c.require(Bg.shape == (len(rows_in), m) and np.all(np.abs(Bg - B[rows_in]) <= 2e-2 * np.maximum(1, np.max(w)) / np.min(w)),
                  "gaussian: an in-gamut target is reproduced", mechanism="gaussian-ingamut-not-reproduced")
    c.nontrivial(inp["basekind"] != "zero" or inp["kkind"] != "none" or "out" in inp["classes"] or inp["wkind"] != "none")
    c.note("objective_gap_vs_oracle", gaps)
    c.note("first_row", {"x": X[0], "B_pred": Bp[0], "target": B[0]})
    c.note("solver_status", statuses)


M.add("objective_vs_oracle", gen_case, chk_case, weight=5, min_held=100)


def gen_rereg(rng, i):
    s = gen_case(rng, i)
    s["rereg_seed"] = int(rng.integers(0, 2 ** 31 - 1))
    s["wkind"], s["W"] = "none", None
    return s


def chk_rereg(inp, c):
    """The models fit the CURRENTLY registered system: fit, change one registration on the same estimator (never a matrix
    K: the property quantifies over scalar/vector K), fit again and judge the second answer against the new values."""
    gen.rereg_check(c, dreye, inp, lambda est: (est.fit(inp["B"], model=inp["model"]), est.gamut_l1_scaling(inp["B"] + 1.0)),
                    chk_case, matrix_ok=False)


M.add("objective_after_reregistration", gen_rereg, chk_rereg, weight=1, min_held=20)
