"""C16 — barycentric and n-sphere coordinate transforms are exact mutual inverses.

Events: every return value of barycentric_to_cartesian_transformer / barycentric_to_cartesian /
cartesian_to_barycentric / barycentric_dim_reduction and cartesian_to_spherical /
spherical_to_cartesian made by the workload.

Oracles (numpy only, nothing from dreye):
* regular simplex  = all pairwise Euclidean distances of the n returned vertices equal 1;
* affine           = f(sum_i l_i x_i) == sum_i l_i f(x_i) for weights summing to 1 (convex and non-convex),
                     and for rows b on the hyperplane sum(b)=1 the squared distance of f(b) to corner k is the
                     closed form 1/2 (1-b_k)^2 + 1/2 (sum_i b_i^2 - b_k^2) of a unit regular simplex;
* inverse          = twin runs (there and back) + row sums against the requested L1;
* n-sphere         = radius against sqrt(sum x^2), exact interval tests of the angles, twin-run round trip
                     judged row by row with a first-order rounding bound (see ``_sph_tolerance``).
"""
import hashlib

import numpy as np

from harness import runtime
from harness.core import Monitor

EPS = float(np.finfo(float).eps)
TOL = 1e-12               # the tolerance of DESIGN.md for everything that is O(1)
K_RT = 64.0               # safety factor of the n-sphere round-trip rounding bound (>= 10x observed)
K_REV = 64.0              # same for the reverse (spherical -> cartesian -> spherical) round trip
NMIN, NMAX = 2, 12

dreye = None
B = None   # dreye.api.barycentric
S = None   # dreye.api.spherical


def _setup():
    global dreye, B, S
    import importlib
    dreye = runtime.load_dreye()
    B = importlib.import_module("dreye.api.barycentric")
    S = importlib.import_module("dreye.api.spherical")


SPH_CLASSES = ["generic", "origin", "axis", "plane", "negative-last", "zero-tail", "zero-head", "last-zero",
               "near-axis", "wide-range", "integer-grid", "signed-zero", "mixed"]
BARY_KINDS = ["interior", "boundary", "corner", "outside", "centroid"]
L1_KINDS = ["none", "scalar", "per-row"]

M = Monitor(
    pid="C16",
    setup=_setup,
    decoy=True,
    title="Barycentric and n-sphere coordinate transforms are exact mutual inverses",
    rule=("cases: barycentric dimension n and n-sphere dimension enumerated 2..12 by the case index; point sets of "
          "1..10^4 rows (n_points x ndim arrays, C and Fortran layout) of one class each: generic, origin, on an axis, "
          "on a coordinate plane, negative last coordinate, all-zero tail, all-zero head, last coordinate zero, near an "
          "axis (offset 1e-14..1e-2), 60 decades of dynamic range, small integers, signed zeros, and a shuffled mix of "
          "all of them; overall scale 1e-100..1e100; barycentric rows interior / on a face / corner / outside the "
          "simplex / centroid, centred and un-centred, L1 none / scalar / per-row (positive, zero, negative). "
          "non-trivial = n-sphere: the set contains a point other than the origin; barycentric: n >= 3 and >= 2 rows "
          "(simplex clause: n >= 3). distinct = hash of the inputs"),
    budget={"quick": (8000, 40), "thorough": (300000, 600)},
    anchors=[("dreye.api.barycentric", "barycentric_to_cartesian_transformer"),
             ("dreye.api.barycentric", "barycentric_to_cartesian"),
             ("dreye.api.barycentric", "cartesian_to_barycentric"),
             ("dreye.api.barycentric", "barycentric_dim_reduction"),
             ("dreye.api.spherical", "cartesian_to_spherical"),
             ("dreye.api.spherical", "spherical_to_cartesian")],
    deciding=["barycentric.barycentric_to_cartesian_transformer", "barycentric.barycentric_to_cartesian",
              "barycentric.cartesian_to_barycentric", "barycentric.barycentric_dim_reduction",
              "spherical.cartesian_to_spherical", "spherical.spherical_to_cartesian"],
    required_cells={"all": (["bary:n=%d" % n for n in range(NMIN, NMAX + 1)]
                            + ["sph:ndim=%d" % n for n in range(NMIN, NMAX + 1)]
                            + ["pts=" + k for k in SPH_CLASSES]
                            + ["center=True", "center=False", "L1=none", "L1=scalar", "L1=per-row",
                               "L1-sign=negative", "L1-sign=zero", "npoints=1", "npoints=10000",
                               "rows=" + BARY_KINDS[0], "rows=boundary", "rows=corner", "rows=outside",
                               "scale=tiny", "scale=huge", "sph:reverse"])},
    assumptions=["float64; coordinates are exactly zero or have 1e-120 <= |x| <= 1e110 so that squares neither "
                 "overflow nor underflow (outside that range cartesian_to_spherical returns inf/nan: not asserted)",
                 "O(1) quantities (simplex vertices, barycentric coordinates, chromatic coordinates) agree to 1e-12 "
                 "relative to the size of the data",
                 "n-sphere round trip judged against K*(ndim*eps*|x| + sum_i min(eps*|x_i|/|x_(i+1:)|, sqrt(2 eps))*|x_(i:)|): "
                 "the angles are obtained through arccos of a ratio, which is ill-conditioned within ~1e-4 (relative) of a "
                 "coordinate sub-axis; there the recovered point is only required to agree to eps/offset (never worse "
                 "than ~1e-6 |x|), elsewhere to ~1e-13 |x|",
                 "only 2-D arrays (n_points, ndim) are passed to the n-sphere functions (the documented usage; "
                 "cartesian_to_spherical indexes X.shape[1])",
                 "chromatic reduction is driven with non-negative capture vectors that have a positive entry"],
)


# ------------------------------------------------------------------ helpers

def _key(*arrays):
    h = hashlib.sha1()
    for a in arrays:
        if isinstance(a, np.ndarray):
            h.update(str(a.shape).encode())
            h.update(np.ascontiguousarray(a).tobytes())
        else:
            h.update(repr(a).encode())
    return h.hexdigest()[:16]


def _is_real_array(a, shape):
    return isinstance(a, np.ndarray) and a.shape == tuple(shape) and a.dtype.kind == "f"


def _shape_ok(c, got, shape, what, mechanism):
    ok = _is_real_array(got, shape)
    c.require(ok, what, mechanism=mechanism, got_type=str(type(got)),
              got_shape=list(getattr(got, "shape", ())), want_shape=list(shape))
    if not ok:
        c.fail("return value unusable: " + what, mechanism=mechanism)
    return got


def _rowwise(c, dev, tol, what, mechanism, **detail):
    """dev, tol broadcastable; a NaN deviation is a violation."""
    dev = np.asarray(dev, dtype=float)
    tol = np.broadcast_to(np.asarray(tol, dtype=float), dev.shape)
    if dev.size == 0:
        return c.require(True, what, mechanism=mechanism)
    with np.errstate(all="ignore"):
        ratio = np.where(tol > 0, dev / np.where(tol > 0, tol, 1), np.where(dev > 0, np.inf, 0.0))
    ratio = np.where(np.isnan(dev), np.inf, ratio)
    w = int(np.argmax(ratio))
    c.margin(what, float(ratio.ravel()[w]), 1.0)
    return c.require(bool(np.all(dev <= tol)), what, mechanism=mechanism,
                     worst_index=[int(j) for j in np.unravel_index(w, dev.shape)],
                     worst_dev=float(dev.ravel()[w]), its_tol=float(tol.ravel()[w]), **detail)


def _pairwise(V):
    d = V[:, None, :] - V[None, :, :]
    return np.sqrt(np.sum(d * d, axis=-1))


def _scale(rng):
    k = int(rng.integers(10))
    if k == 0:
        return "tiny", 1e-100
    if k == 1:
        return "huge", 1e100
    if k <= 4:
        return "unit", 1.0
    return "moderate", float(10.0 ** rng.uniform(-3, 3))


# ================================================================== barycentric

def _bary_rows(rng, kind, m, n):
    """m rows of barycentric coordinates summing to 1."""
    if kind == "interior":
        X = rng.dirichlet(np.ones(n) * float(rng.choice([0.3, 1.0, 5.0])), size=m)
    elif kind == "boundary":
        X = rng.dirichlet(np.ones(n), size=m)
        mask = rng.random((m, n)) < 0.5
        mask[np.arange(m), rng.integers(n, size=m)] = True       # at least one zero ...
        keep = rng.integers(n, size=m)
        mask[np.arange(m), keep] = False                          # ... and one positive entry
        X = np.where(mask, 0.0, X)
        X = X / X.sum(axis=1, keepdims=True)
    elif kind == "corner":
        X = np.zeros((m, n))
        X[np.arange(m), rng.integers(n, size=m)] = 1.0
    elif kind == "outside":
        X = rng.normal(0, float(rng.choice([0.5, 3.0, 50.0])), size=(m, n))
        X = X + (1.0 - X.sum(axis=1, keepdims=True)) / n
    else:  # centroid
        X = np.full((m, n), 1.0 / n)
    return X


def _weights(rng, k, m):
    """k rows of m affine weights summing to 1 (convex, signed, two-point extrapolation)."""
    kind = int(rng.integers(3))
    if kind == 0:
        return "convex", rng.dirichlet(np.ones(m), size=k)
    if kind == 1:
        L = rng.normal(0, 2.0, size=(k, m))
        return "signed", L + (1.0 - L.sum(axis=1, keepdims=True)) / m
    L = np.zeros((k, m))
    t = rng.uniform(-3, 4, size=k)
    a = rng.integers(m, size=k)
    b = (a + 1 + rng.integers(max(m - 1, 1), size=k)) % m
    L[np.arange(k), a] += t
    L[np.arange(k), b] += 1.0 - t
    return "two-point", L


def _grid_n_center(i):
    return NMIN + (i % (NMAX - NMIN + 1)), bool((i // (NMAX - NMIN + 1)) % 2)


# ------------------------------------------------------------------ clause: simplex vertices (finite enumeration)

N_SIMPLEX = 2 * (NMAX - NMIN + 1)


def gen_simplex(rng, i):
    n, center = _grid_n_center(i)
    return {"n": int(n), "center": center}


def chk_simplex(inp, c):
    n, center = int(inp["n"]), bool(inp["center"])
    c.cell("bary:n=%d" % n, "center=%s" % center, "simplex")
    T = c.call(B.barycentric_to_cartesian_transformer, n)
    T = _shape_ok(c, T, (n, n - 1), "transformer T_n is an (n, n-1) real array", "transformer-shape")
    c.require(bool(np.all(np.isfinite(T))), "T_n finite", mechanism="transformer-nonfinite")
    off = ~np.eye(n, dtype=bool)
    D = _pairwise(T)
    _rowwise(c, np.abs(D[off] - 1.0), TOL, "all pairwise distances of the rows of T_n are 1",
             "transformer-edges", n=n, distances=D[0])
    _rowwise(c, np.abs(T[0]), TOL, "row 0 of T_n is the origin", "transformer-row0", n=n)
    C = c.call(dreye.barycentric_to_cartesian, np.eye(n), center=center)
    C = _shape_ok(c, C, (n, n - 1), "corners map to an (n, n-1) real array", "b2c-shape")
    DC = _pairwise(C)
    _rowwise(c, np.abs(DC[off] - 1.0), TOL,
             "the n corners of the capture simplex map to a regular simplex with unit edges",
             "corners-edges", n=n, center=center, distances=DC[0])
    if center:
        _rowwise(c, np.abs(C.mean(axis=0)), TOL, "centred variant: centroid of the mapped corners is the origin",
                 "corners-centroid", n=n)
    c.nontrivial(n >= 3)
    c.note("edge_lengths_min_max", {"T": [float(D[off].min()), float(D[off].max())],
                                    "corners": [float(DC[off].min()), float(DC[off].max())], "oracle": 1.0})


M.add("simplex_vertices", gen_simplex, chk_simplex, weight=1, min_held=N_SIMPLEX,
      enumerated=lambda tier: N_SIMPLEX)


# ------------------------------------------------------------------ clause: affine map

def gen_affine(rng, i):
    n, center = _grid_n_center(i)
    m = int(rng.integers(2, 9))
    kind = (BARY_KINDS + ["free"])[(i // N_SIMPLEX) % (len(BARY_KINDS) + 1)]
    if kind == "free":
        X = rng.normal(0, float(rng.choice([1.0, 100.0])), size=(m, n))
    else:
        X = _bary_rows(rng, kind, m, n)
    lk, L = _weights(rng, int(rng.integers(1, 6)), m)
    return {"n": int(n), "center": center, "kind": kind, "X": X, "L": L, "lkind": lk}


def chk_affine(inp, c):
    n, center, X, L = int(inp["n"]), bool(inp["center"]), inp["X"], inp["L"]
    m = X.shape[0]
    c.cell("bary:n=%d" % n, "center=%s" % center, "rows=" + inp["kind"], "weights=" + inp["lkind"], "affine")
    f = lambda Z: c.call(dreye.barycentric_to_cartesian, Z, center=center)
    fX = _shape_ok(c, f(X.copy()), (m, n - 1), "result is (n_points, n-1)", "b2c-shape")
    c.require(bool(np.all(np.isfinite(fX))), "finite input gives finite output", mechanism="b2c-nonfinite")
    comb = L @ X
    lhs = _shape_ok(c, f(comb), (L.shape[0], n - 1), "result is (n_points, n-1)", "b2c-shape")
    rhs = L @ fX
    # |f(x)| <= |x|_1 + 1 (entries of a unit simplex), so this bounds every intermediate
    scale = np.maximum(1.0, np.abs(L) @ (np.abs(X).sum(axis=1) + 1.0))
    _rowwise(c, np.abs(lhs - rhs), TOL * scale[:, None],
             "affine: f(sum_i l_i x_i) == sum_i l_i f(x_i) for weights summing to 1", "affine",
             n=n, center=center, lhs=lhs[0], rhs=rhs[0])
    if inp["kind"] != "free":
        # rows on the hyperplane sum(b)=1: position relative to the mapped corners, closed form
        C = _shape_ok(c, f(np.eye(n)), (n, n - 1), "corners map to an (n, n-1) real array", "b2c-shape")
        d2 = np.sum((fX[:, None, :] - C[None, :, :]) ** 2, axis=-1)
        s2 = np.sum(X * X, axis=1, keepdims=True)
        want = 0.5 * (1.0 - X) ** 2 + 0.5 * (s2 - X * X)
        _rowwise(c, np.abs(d2 - want), TOL * np.maximum(1.0, s2 + 1.0),
                 "f(b) lies at the barycentric position b relative to the mapped corners "
                 "(|f(b)-f(e_k)|^2 == (1-b_k)^2/2 + (|b|^2-b_k^2)/2)", "barycentric-position",
                 n=n, center=center, got=d2[0], want=want[0])
    c.nontrivial(n >= 3 and m >= 2)
    c.note("affine_first_row", {"f(sum l x)": lhs[0][:4], "sum l f(x)": rhs[0][:4]})


M.add("bary_affine", gen_affine, chk_affine, weight=2, min_held=100)


# ------------------------------------------------------------------ clause: inverse + requested L1

def gen_inverse(rng, i):
    n, center = _grid_n_center(i)
    j = i // N_SIMPLEX
    l1kind = L1_KINDS[j % 3]
    kind = BARY_KINDS[(j // 3) % len(BARY_KINDS)]
    m = int(rng.choice([1, 2, 3, 7, 40])) if rng.integers(3) else int(rng.integers(1, 30))
    Bc = _bary_rows(rng, kind, m, n)
    sign = ["positive", "negative", "zero", "mixed"][int(rng.integers(4))]
    L1, flavour = None, None
    if l1kind == "scalar":
        v = {"positive": float(10.0 ** rng.uniform(-6, 6)), "negative": -float(10.0 ** rng.uniform(-3, 3)),
             "zero": 0.0, "mixed": float(rng.normal(0, 10))}[sign]
        flavour = ["float", "np.float64", "0-d array", "int"][int(rng.integers(4))]
        if flavour == "int":
            v = float(round(v)) if abs(v) < 1e9 else 3.0
        L1 = v
    elif l1kind == "per-row":
        L1 = {"positive": 10.0 ** rng.uniform(-6, 6, m), "negative": -(10.0 ** rng.uniform(-3, 3, m)),
              "zero": np.where(rng.random(m) < 0.5, 0.0, rng.uniform(0, 5, m)),
              "mixed": rng.normal(0, 10, m)}[sign]
        if sign == "zero":
            L1[int(rng.integers(m))] = 0.0
    P = rng.normal(0, float(10.0 ** rng.uniform(-2, 2)), size=(m, n - 1))
    return {"n": int(n), "center": center, "kind": kind, "B": Bc, "L1kind": l1kind, "L1": L1,
            "L1sign": sign if l1kind != "none" else "n/a", "L1flavour": flavour, "P": P}


def _l1_arg(inp):
    L1, fl = inp["L1"], inp["L1flavour"]
    if inp["L1kind"] == "none":
        return None
    if inp["L1kind"] == "scalar":
        v = float(L1)
        return {"float": v, "np.float64": np.float64(v), "0-d array": np.asarray(v), "int": int(v)}[fl]
    return np.asarray(L1, dtype=float).copy()


def chk_inverse(inp, c):
    n, center, Bc, P = int(inp["n"]), bool(inp["center"]), inp["B"], inp["P"]
    m = Bc.shape[0]
    c.cell("bary:n=%d" % n, "center=%s" % center, "centered=%s" % center, "rows=" + inp["kind"],
           "L1=" + inp["L1kind"], "inverse")
    if inp["L1kind"] != "none":
        c.cell("L1-sign=" + inp["L1sign"])
    if inp["L1kind"] == "scalar":
        c.cell("L1-type=" + str(inp["L1flavour"]))
    l1 = np.ones(m) if inp["L1kind"] == "none" else np.broadcast_to(np.asarray(inp["L1"], dtype=float), (m,))
    # --- there (barycentric -> cartesian) and back with the requested L1
    X = c.call(dreye.barycentric_to_cartesian, Bc.copy(), center=center)
    X = _shape_ok(c, X, (m, n - 1), "cartesian result is (n_points, n-1)", "b2c-shape")
    kw = {} if inp["L1kind"] == "none" else {"L1": _l1_arg(inp)}
    got = c.call(dreye.cartesian_to_barycentric, X.copy(), centered=center, **kw)
    got = _shape_ok(c, got, (m, n), "barycentric result is (n_points, n)", "c2b-shape")
    c.require(bool(np.all(np.isfinite(got))), "finite input gives finite output", mechanism="c2b-nonfinite")
    want = Bc * l1[:, None]
    mag = np.maximum(1.0, np.abs(Bc).max(axis=1)) * np.abs(l1)
    _rowwise(c, np.abs(got - want), (TOL * mag + 1e-300)[:, None],
             "cartesian_to_barycentric(barycentric_to_cartesian(b), L1) == L1 * b (same centring on both sides)",
             "inverse", n=n, center=center, L1kind=inp["L1kind"], got=got[0], want=want[0])
    l1mag = np.maximum(1.0, np.abs(Bc).sum(axis=1)) * np.abs(l1)
    _rowwise(c, np.abs(got.sum(axis=1) - l1), TOL * l1mag + 1e-300,
             "returned coordinates sum to the requested L1 (1 when L1 is None)", "l1-sum",
             n=n, center=center, L1kind=inp["L1kind"], sums=got.sum(axis=1)[:4], requested=l1[:4])
    # --- back (cartesian -> barycentric) and there, arbitrary points of the plane / space
    b2 = c.call(dreye.cartesian_to_barycentric, P.copy(), centered=center, **kw)
    b2 = _shape_ok(c, b2, (m, n), "barycentric result is (n_points, n)", "c2b-shape")
    s2mag = np.maximum(1.0, np.abs(b2).sum(axis=1))
    _rowwise(c, np.abs(b2.sum(axis=1) - l1), TOL * np.maximum(s2mag, np.abs(l1)) + 1e-300,
             "returned coordinates sum to the requested L1 (1 when L1 is None)", "l1-sum",
             n=n, center=center, L1kind=inp["L1kind"], sums=b2.sum(axis=1)[:4], requested=l1[:4])
    if inp["L1kind"] == "none":
        back = c.call(dreye.barycentric_to_cartesian, b2.copy(), center=center)
        back = _shape_ok(c, back, (m, n - 1), "cartesian result is (n_points, n-1)", "b2c-shape")
        pm = np.maximum(1.0, np.abs(b2).sum(axis=1))
        _rowwise(c, np.abs(back - P), (TOL * pm)[:, None],
                 "barycentric_to_cartesian(cartesian_to_barycentric(p)) == p (same centring on both sides)",
                 "inverse-reverse", n=n, center=center, got=back[0], want=P[0])
    c.nontrivial(n >= 3 and m >= 2)
    c.note("row0", {"observed": got[0][:4], "oracle L1*b": want[0][:4],
                    "row_sum": float(got[0].sum()), "requested_L1": float(l1[0])})


M.add("bary_inverse_L1", gen_inverse, chk_inverse, weight=3, min_held=150)


# ------------------------------------------------------------------ clause: chromatic reduction

CAPTURE_KINDS = ["uniform", "log", "sparse", "one-hot", "counts"]


def gen_chromatic(rng, i):
    n, center = _grid_n_center(i)
    kind = CAPTURE_KINDS[(i // N_SIMPLEX) % len(CAPTURE_KINDS)]
    m = int(rng.integers(1, 25))
    if kind == "uniform":
        x = rng.uniform(0, 1, (m, n)) * float(10.0 ** rng.uniform(-3, 3))
    elif kind == "log":
        x = 10.0 ** rng.uniform(-6, 3, (m, n))
    elif kind == "sparse":
        x = rng.uniform(0, 2, (m, n)) * (rng.random((m, n)) < 0.5)
        x[np.arange(m), rng.integers(n, size=m)] = rng.uniform(0.1, 2, m)
    elif kind == "one-hot":
        x = np.zeros((m, n))
        x[np.arange(m), rng.integers(n, size=m)] = 10.0 ** rng.uniform(-3, 3, m)
    else:
        x = rng.integers(0, 6, (m, n)).astype(float)
        x[np.arange(m), rng.integers(n, size=m)] += 1.0
    tk = int(rng.integers(3))
    if tk == 0:
        t = np.asarray(float(10.0 ** rng.uniform(-8, 8)))
    elif tk == 1:
        t = np.asarray(float(2.0 ** int(rng.integers(-30, 31))))
    else:
        t = 10.0 ** rng.uniform(-8, 8, m)
    return {"n": int(n), "center": center, "kind": kind, "x": x, "t": t}


def chk_chromatic(inp, c):
    n, center, x, t = int(inp["n"]), bool(inp["center"]), inp["x"], np.asarray(inp["t"], dtype=float)
    m = x.shape[0]
    c.cell("bary:n=%d" % n, "center=%s" % center, "capture=" + inp["kind"], "chromatic",
           "t=per-row" if t.ndim else "t=scalar")
    if not (np.all(x >= 0) and np.all(x.sum(axis=1) > 0) and np.all(t > 0)):
        c.unmet("capture vectors are non-negative with a positive entry, t > 0")
    tx = x * (t[:, None] if t.ndim else float(t))
    r1 = c.call(B.barycentric_dim_reduction, x.copy(), center=center)
    r1 = _shape_ok(c, r1, (m, n - 1), "chromatic coordinates are (n_points, n-1)", "dimred-shape")
    r2 = c.call(B.barycentric_dim_reduction, tx.copy(), center=center)
    r2 = _shape_ok(c, r2, (m, n - 1), "chromatic coordinates are (n_points, n-1)", "dimred-shape")
    c.require(bool(np.all(np.isfinite(r1)) and np.all(np.isfinite(r2))), "finite chromatic coordinates",
              mechanism="dimred-nonfinite")
    _rowwise(c, np.abs(r2 - r1), TOL, "barycentric_dim_reduction(t*x) == barycentric_dim_reduction(x) for t > 0",
             "scale-invariance", n=n, center=center, t=t.ravel()[:3], r_x=r1[0], r_tx=r2[0])
    # value: position relative to the mapped corners for b = x / sum(x)
    b = x / x.sum(axis=1, keepdims=True)
    C = c.call(dreye.barycentric_to_cartesian, np.eye(n), center=center)
    C = _shape_ok(c, C, (n, n - 1), "corners map to an (n, n-1) real array", "b2c-shape")
    d2 = np.sum((r1[:, None, :] - C[None, :, :]) ** 2, axis=-1)
    want = 0.5 * (1.0 - b) ** 2 + 0.5 * (np.sum(b * b, axis=1, keepdims=True) - b * b)
    _rowwise(c, np.abs(d2 - want), 4 * TOL,
             "chromatic point of x is the barycentric point x/sum(x) of the mapped corner simplex",
             "chromatic-position", n=n, center=center, got=d2[0], want=want[0])
    # round trip with L1 = sum(x)
    s = x.sum(axis=1)
    back = c.call(dreye.cartesian_to_barycentric, r1.copy(), L1=s.copy(), centered=center)
    back = _shape_ok(c, back, (m, n), "barycentric result is (n_points, n)", "c2b-shape")
    _rowwise(c, np.abs(back - x), (TOL * s)[:, None],
             "cartesian_to_barycentric(barycentric_dim_reduction(x), L1=sum(x)) == x", "chromatic-roundtrip",
             n=n, center=center, got=back[0], want=x[0])
    _rowwise(c, np.abs(back.sum(axis=1) - s), TOL * s,
             "returned coordinates sum to the requested L1 (1 when L1 is None)", "l1-sum", n=n)
    c.cell("L1=per-row")
    c.nontrivial(n >= 3 and m >= 2)
    c.note("row0", {"x": x[0][:4], "recovered": back[0][:4], "max|r(tx)-r(x)|": float(np.max(np.abs(r2 - r1)))})


M.add("chromatic_reduction", gen_chromatic, chk_chromatic, weight=2, min_held=100)


# ================================================================== n-sphere

def _nz(g):
    """normal deviates kept away from (accidental) zero"""
    return np.where(np.abs(g) < 1e-3, np.copysign(1e-3, g) + g, g)


def _sph_rows(rng, cls, m, d):
    g = _nz(rng.normal(size=(m, d)))
    r = np.arange(m)
    if cls == "generic":
        return g
    if cls == "origin":
        return np.zeros((m, d))
    if cls == "axis":
        X = np.zeros((m, d))
        k = rng.integers(d, size=m)
        X[r, k] = g[r, k]
        return X
    if cls in ("plane", "signed-zero"):
        mask = rng.random((m, d)) < rng.uniform(0.2, 0.8)
        z = rng.integers(d, size=m)
        mask[r, z] = True
        mask[r, (z + 1 + rng.integers(d - 1, size=m)) % d] = False
        return np.where(mask, -0.0 if cls == "signed-zero" else 0.0, g)
    if cls == "negative-last":
        X = g.copy()
        X[:, -1] = -np.abs(g[:, -1])
        k = rng.integers(4, size=m)
        X[k == 1, -2] = 0.0                 # azimuth exactly 3 pi / 2
        X[k == 2, :-1] = 0.0                # on the negative last axis
        X[k == 3, -2] = -np.abs(g[k == 3, -2])
        return X
    if cls == "zero-tail":
        j = rng.integers(1, d, size=m)      # first j coordinates generic, the rest exactly zero
        return np.where(np.arange(d)[None, :] >= j[:, None], 0.0, g)
    if cls == "zero-head":
        j = rng.integers(1, d, size=m)
        return np.where(np.arange(d)[None, :] < j[:, None], 0.0, g)
    if cls == "last-zero":
        X = g.copy()
        X[:, -1] = 0.0
        k = rng.integers(3, size=m)
        X[k == 1, -2] = -np.abs(g[k == 1, -2])   # azimuth exactly pi
        X[k == 2, -2] = np.abs(g[k == 2, -2])    # azimuth exactly 0 (or 2 pi)
        return X
    if cls == "near-axis":
        X = g.copy()
        k = rng.integers(0, d - 1, size=m)       # the tail after coordinate k is tiny
        off = 10.0 ** rng.uniform(-14, -2, size=m)
        tail = np.arange(d)[None, :] > k[:, None]
        X = np.where(tail, X * off[:, None], X)
        head0 = rng.random(m) < 0.5              # half of them: a genuine axis, nothing in front
        X = np.where((np.arange(d)[None, :] < k[:, None]) & head0[:, None], 0.0, X)
        return X
    if cls == "wide-range":
        return np.sign(g) * 10.0 ** rng.uniform(-30, 30, size=(m, d))
    if cls == "integer-grid":
        return rng.integers(-2, 3, size=(m, d)).astype(float)
    raise ValueError(cls)


def gen_sph(rng, i):
    d = NMIN + (i % (NMAX - NMIN + 1))
    cls = SPH_CLASSES[(i // (NMAX - NMIN + 1)) % len(SPH_CLASSES)]
    u = int(rng.integers(40))
    m = 1 if u < 4 else 10000 if u == 4 else 1000 if u == 5 else int(rng.integers(2, 60))
    if cls == "mixed":
        parts = [c for c in SPH_CLASSES if c != "mixed"]
        m = max(m, len(parts))
        counts = np.bincount(rng.integers(len(parts), size=m - len(parts)), minlength=len(parts)) + 1
        X = np.concatenate([_sph_rows(rng, p, int(k), d) for p, k in zip(parts, counts)], axis=0)
        X = X[rng.permutation(m)]
    else:
        X = _sph_rows(rng, cls, m, d)
    sname, s = _scale(rng)
    if cls in ("wide-range", "mixed") and sname in ("tiny", "huge"):
        sname, s = "unit", 1.0
    X = X * s
    as_int = bool(cls == "integer-grid" and s == 1.0 and rng.integers(2))
    if as_int:
        X = X.astype(np.int64)
    return {"ndim": int(d), "cls": cls, "X": X, "scale": sname, "fortran": bool(rng.integers(4) == 0)}


def _sph_tolerance(X):
    """Row-wise first-order bound on the rounding error of x -> angles -> x when each angle is
    arccos(x_i / |x_(i:)|) evaluated in float64: an error eps in the ratio moves the angle by
    eps*|cot| (at most sqrt(2 eps) when the ratio rounds to +-1) and the point by that times |x_(i:)|.
    An exactly zero tail gives the ratio +-1 exactly and contributes nothing."""
    X = np.asarray(X, dtype=float)
    d = X.shape[1]
    sq = X * X
    tails = np.sqrt(np.cumsum(sq[:, ::-1], axis=1)[:, ::-1])      # tails[:, i] = |x_(i:)|
    nrm = tails[:, 0]
    t = tails[:, 1:]
    a = np.abs(X[:, :-1])
    with np.errstate(all="ignore"):
        slope = np.where(t > 0, np.minimum(EPS * a / np.where(t > 0, t, 1.0), np.sqrt(2 * EPS)), 0.0)
    cond = np.sum(slope * tails[:, :-1], axis=1)
    return d * EPS * nrm + cond, nrm


def _sph_forward_checks(c, X, Y, d):
    """radius / ranges / finiteness of a cartesian_to_spherical return value; returns row mask 'finite'."""
    Xf = np.asarray(X, dtype=float)
    fin = np.isfinite(Y)
    bad = np.flatnonzero(~fin.all(axis=1))
    c.require(bad.size == 0, "all spherical coordinates are finite (also for the origin, axes, zero tails)",
              mechanism="sph-nonfinite", n_bad_rows=int(bad.size),
              x=Xf[bad[0]] if bad.size else None, y=Y[bad[0]] if bad.size else None)
    nrm = np.sqrt(np.sum(Xf * Xf, axis=1))
    _rowwise(c, np.abs(Y[:, 0] - nrm), 1e-13 * nrm + 1e-300, "radius equals the Euclidean norm", "sph-radius",
             ndim=d, got=Y[:4, 0], want=nrm[:4])
    pol = Y[:, 1:-1]
    okp = (pol >= 0.0) & (pol <= np.pi)
    badp = np.flatnonzero(~okp.all(axis=1))
    c.require(badp.size == 0, "polar angles lie in [0, pi]", mechanism="sph-polar-range",
              n_bad_rows=int(badp.size), x=Xf[badp[0]] if badp.size else None, y=Y[badp[0]] if badp.size else None)
    az = Y[:, -1]
    oka = (az >= 0.0) & (az <= 2.0 * np.pi)
    bada = np.flatnonzero(~oka)
    c.require(bada.size == 0, "azimuth (last angle) lies in [0, 2 pi]", mechanism="sph-azimuth-range",
              n_bad_rows=int(bada.size), x=Xf[bada[0]] if bada.size else None, y=Y[bada[0]] if bada.size else None)
    return nrm


def chk_sph(inp, c):
    X, d, cls = inp["X"], int(inp["ndim"]), inp["cls"]
    m = X.shape[0]
    c.cell("sph:ndim=%d" % d, "pts=" + cls, "scale=" + inp["scale"], "sph:forward",
           "npoints=%d" % m if m in (1, 1000, 10000) else "npoints=2..99" if m < 100 else "npoints=100+")
    if X.dtype.kind == "i":
        c.cell("dtype=int")
    Xf = np.asarray(X, dtype=float)
    nz = Xf != 0
    if not np.all(np.isfinite(Xf)) or (nz.any() and (np.abs(Xf[nz]).min() < 1e-120 or np.abs(Xf[nz]).max() > 1e110)):
        c.unmet("coordinates outside the range whose squares are representable")
    arg = np.asfortranarray(X.copy()) if inp["fortran"] else X.copy()
    if inp["fortran"]:
        c.cell("layout=F")
    Y = c.call(dreye.cartesian_to_spherical, arg)
    Y = _shape_ok(c, Y, (m, d), "spherical coordinates are (n_points, ndim)", "sph-shape")
    nrm = _sph_forward_checks(c, X, Y, d)
    Z = c.call(dreye.spherical_to_cartesian, Y.copy())
    Z = _shape_ok(c, Z, (m, d), "cartesian coordinates are (n_points, ndim)", "sph-shape")
    bound, _ = _sph_tolerance(Xf)
    err = np.sqrt(np.sum((Z - Xf) ** 2, axis=1))
    w = int(np.argmax(np.where(np.isnan(err), np.inf, err / (K_RT * bound + 1e-300))))
    _rowwise(c, err, K_RT * bound + 1e-300,
             "spherical_to_cartesian(cartesian_to_spherical(x)) recovers x", "sph-roundtrip",
             ndim=d, cls=cls, x=Xf[w], spherical=Y[w], recovered=Z[w])
    # the plain 1e-12 * max(1, |x|) statement of the design, for every row that is not within ~1e-2 of a sub-axis
    well = bound <= 200 * EPS * nrm
    if well.any():
        _rowwise(c, err[well], 1e-12 * np.maximum(1.0, nrm[well]),
                 "round trip within 1e-12 * max(1, |x|) for points not within ~1e-2 (relative) of a coordinate sub-axis",
                 "sph-roundtrip", ndim=d, cls=cls)
        c.cell("sph:well-conditioned-rows")
    if (~well).any():
        c.cell("sph:near-sub-axis-rows")
    c.nontrivial(bool(np.any(nrm > 0)))
    c.distinct_key = _key(X, d, cls)
    with np.errstate(all="ignore"):
        rel = err / np.where(nrm > 0, nrm, 1.0)
    c.note("row", {"x": Xf[w][:6], "spherical": Y[w][:6], "recovered": Z[w][:6],
                   "radius_oracle": float(nrm[w]), "max_rel_roundtrip_err": float(np.nanmax(rel))})


M.add("sphere_roundtrip", gen_sph, chk_sph, weight=5, min_held=300)


# ------------------------------------------------------------------ clause: canonical spherical -> cartesian -> spherical

def gen_sph_rev(rng, i):
    d = NMIN + (i % (NMAX - NMIN + 1))
    u = int(rng.integers(30))
    m = 1 if u < 3 else 10000 if u == 3 else int(rng.integers(2, 60))
    margin = float([0.5, 0.1, 0.01, 1e-3][(i // (NMAX - NMIN + 1)) % 4])
    Y = np.empty((m, d))
    sname, s = _scale(rng)
    Y[:, 0] = s * 10.0 ** rng.uniform(-2, 2, m)
    Y[:, 1:-1] = rng.uniform(margin, np.pi - margin, (m, d - 2))
    az = rng.uniform(margin, np.pi - margin, m)
    Y[:, -1] = np.where(rng.random(m) < 0.5, az, az + np.pi)
    return {"ndim": int(d), "Y": Y, "margin": margin, "scale": sname}


def chk_sph_rev(inp, c):
    Y, d = inp["Y"], int(inp["ndim"])
    m = Y.shape[0]
    c.cell("sph:ndim=%d" % d, "sph:reverse", "angle-margin=%g" % inp["margin"], "scale=" + inp["scale"],
           "npoints=%d" % m if m in (1, 10000) else "npoints=2..99")
    ang = Y[:, 1:]
    canonical = (np.all(Y[:, 0] > 0) and np.all(ang > 0) and np.all(ang[:, :-1] < np.pi)
                 and np.all(ang[:, -1] < 2 * np.pi) and np.all(np.abs(ang[:, -1] - np.pi) > 0))
    if not canonical:
        c.unmet("spherical coordinates not strictly inside their canonical ranges")
    X = c.call(dreye.spherical_to_cartesian, Y.copy())
    X = _shape_ok(c, X, (m, d), "cartesian coordinates are (n_points, ndim)", "sph-shape")
    c.require(bool(np.all(np.isfinite(X))), "finite cartesian coordinates", mechanism="sph-nonfinite")
    nrm = np.sqrt(np.sum(X * X, axis=1))
    _rowwise(c, np.abs(nrm - Y[:, 0]), 1e-13 * d * Y[:, 0],
             "spherical_to_cartesian returns a point whose Euclidean norm is the radius", "sph-radius-reverse",
             ndim=d, got=nrm[:4], want=Y[:4, 0])
    Y2 = c.call(dreye.cartesian_to_spherical, X.copy())
    Y2 = _shape_ok(c, Y2, (m, d), "spherical coordinates are (n_points, ndim)", "sph-shape")
    _sph_forward_checks(c, X, Y2, d)
    with np.errstate(all="ignore"):
        tol = np.empty_like(Y)
        tol[:, 0] = K_REV * d * EPS * Y[:, 0]
        tol[:, 1:] = K_REV * d * EPS * (1.0 + 1.0 / np.abs(np.sin(ang)))
    dev = np.abs(Y2 - Y)
    w = int(np.argmax(np.where(np.isnan(dev), np.inf, dev / tol).max(axis=1)))
    _rowwise(c, dev, tol, "cartesian_to_spherical(spherical_to_cartesian(y)) recovers canonical y "
             "(radius > 0, angles strictly inside their ranges)", "sph-reverse-roundtrip",
             ndim=d, y=Y[w], cartesian=X[w], recovered=Y2[w])
    c.nontrivial(True)
    c.distinct_key = _key(Y, d)
    c.note("row", {"y": Y[w][:6], "recovered": Y2[w][:6], "max_abs_dev": float(np.nanmax(dev))})


M.add("sphere_reverse_roundtrip", gen_sph_rev, chk_sph_rev, weight=2, min_held=100)


# the repository's own tests as one more workload: contracts armed in situ (harness/observe.py)
from harness import observe as _observe  # noqa: E402
_observe.add_insitu_clause(M, ['spherical.cartesian_to_spherical'], runtime)
