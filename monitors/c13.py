"""C13 — samples drawn in the gamut are in the gamut, reproducible and uniform.

Events: the arrays returned by dreye.sample_in_hull / ReceptorEstimator.sample_in_gamut.
Oracles (no dreye code, no cvxpy):
  * membership in conv(P): half-space test with the facets of scipy's ConvexHull(P) on every sample, HiGHS
    convex-combination LP on <= 50 random samples and on every flagged one (+ active-set NNLS for the band);
  * membership in a gamut: closed-form zonotope facet depth (bounded systems) / closed-form polyhedral-cone depth
    (ub = inf), HiGHS feasibility LP on a few samples;
  * totals and chromaticities of l1-samples: row sums; half-space test in the chromaticity diagram + projective LP;
  * uniformity (engine None, n = 1e5, significance 1e-9 per test):
      (a) exact pull-back: the hull is an affine image of the unit cube / the standard simplex (with interior and
          nearly collinear boundary points added to the cloud), T^-1(samples) must be i.i.d. uniform on the cube
          (simplex: after the Dirichlet(1) stick-breaking transform): chi-square on k^d equal cells (fine + coarse)
          and a Kolmogorov-Smirnov test per axis;
      (b) general polytopes and gamuts: two-sample chi-square against an independent rejection sampler (uniform
          proposals in the bounding box of a whitened frame, accepted by half-spaces / zonotope depth) on a random
          half-space partition and on a coarse grid partition (cells with small pooled counts merged).
"""
import warnings

import numpy as np

from harness import runtime, oracles, gen
from harness.core import Monitor

ALPHA = 1e-9            # per statistical test; < 1000 tests per run => < 1e-6 false alarms per run
N_UNIF = 100000
ENGINES = [None, "Halton", "Sobol", "LHC"]
NS = [1, 2, 7, 64, 1000]
CLOUDS = ["random", "interior", "flat", "skewed", "lattice", "gamut-corners"]
TOL_IN = 1e-9           # membership tolerance, relative to the extent of the hull / gamut
TOL_LP = 1e-7           # HiGHS feasibility tolerance, relative

dreye = None


def _setup():
    global dreye
    dreye = runtime.load_dreye()


M = Monitor(
    pid="C13",
    setup=_setup,
    title="Samples drawn in the gamut are in the gamut, reproducible and uniform",
    rule=("cases: (1) dreye.sample_in_hull on point clouds in 2-4 dimensions (random, many interior points + duplicates, "
          "nearly collinear / flat but full-dimensional, affinely skewed up to condition 1e4, lattice points, gamut corner "
          "clouds) x engine None/Halton/Sobol/LHC x n in {1,2,7,64,1000,1e5}; (2) ReceptorEstimator.sample_in_gamut on "
          "systems with 2-4 receptors and >= as many sources, bounded and ub=inf, relative True/False, all engines; (3) the "
          "same with a requested total l1 (attainable in the gamut); (4) uniformity of the default engine at n=1e5 by exact "
          "pull-back (cube / simplex images) and (5) by a two-sample test against an independent rejection sampler "
          "(random / skewed / flat / interior-heavy clouds and estimator gamuts). non-trivial = at least 2 samples requested "
          "(a population, not a single point); distinct = hash of rounded inputs"),
    budget={"quick": (768, 75), "thorough": (48870, 1500)},
    anchors=[("dreye.api.sampling", "sample_in_hull"), ("dreye.api.estimator", "ReceptorEstimator.sample_in_hull")],
    deciding=["sampling.sample_in_hull", "estimator.ReceptorEstimator.sample_in_hull"],
    required_cells={"all": ["engine=None", "engine=Halton", "engine=Sobol", "engine=LHC", "d=2", "d=3", "d=4",
                            "cloud=random", "cloud=interior", "cloud=flat", "cloud=skewed", "cloud=lattice",
                            "cloud=gamut-corners", "n=1", "n=2", "n=7", "n=64", "n=1000", "n=100000",
                            "api=sample_in_hull", "api=sample_in_gamut", "l1=given", "l1=none", "relative=False",
                            "relative=True", "gamut=bounded", "gamut=unbounded", "gamut=cone-from-origin",
                            "gamut=unbounded-offset-apex", "uniform=pullback-cube", "uniform=pullback-simplex",
                            "uniform=two-sample:cloud", "uniform=two-sample:gamut", "m=2", "m=3", "m=4",
                            "K=matrix", "K=none", "lb=pos"]},
    assumptions=["chi-square / Kolmogorov asymptotics at n = 1e5 with expected cell counts >= 50 (tail accuracy at 1e-9 within a small factor)",
                 "per-test significance 1e-9; at most ~900 statistical tests per run",
                 "detectable effect at n = 1e5: r.m.s. relative density deviation of about 5 % over ~30-1000 cells "
                 "(volume-blind simplex choice, Dirichlet(2) weights, a dropped simplex are O(1) effects)",
                 "zonotope / cone facet normals enumerated from (m-1)-subsets of generator columns (full row rank)",
                 "sampling without l1 on an unbounded system (ub = inf): the gamut has infinite volume, uniformity is not "
                 "defined and not asserted; membership in the true unbounded gamut is",
                 "l1 is drawn inside the range of totals attainable in the gamut (otherwise no in-gamut sample exists)"],
)


# =============================================================================================== helpers: geometry

def _extent(P):
    P = np.asarray(P, dtype=float)
    return float(np.max(P.max(0) - P.min(0)))


def _oracle_hull(c, P):
    from scipy.spatial import ConvexHull
    try:
        return ConvexHull(np.asarray(P, dtype=float))
    except Exception as e:  # noqa  (QhullError): the oracle cannot decide
        c.inconclusive(f"oracle ConvexHull failed: {type(e).__name__}")


def _halfspace_excess(eq, X, chunk=20000):
    """max over facets of n.x + o (<= 0 inside) for every row of X."""
    out = np.empty(len(X))
    N, o = eq[:, :-1], eq[:, -1]
    for a in range(0, len(X), chunk):
        out[a:a + chunk] = np.max(X[a:a + chunk] @ N.T + o, axis=1)
    return out


def _lp_hull_rel(P, b):
    """LP residual of the best convex combination, in units of the extent of P."""
    P = np.asarray(P, dtype=float)
    mu, sc = P.mean(0), _extent(P)
    return oracles.lp_in_hull_residual((P - mu) / sc, (b - mu) / sc)


def _nnls_hull_rel(P, b):
    """Active-set NNLS distance of b from conv(P) (machine-precision residual), in units of the extent."""
    from scipy.optimize import nnls
    P = np.asarray(P, dtype=float)
    mu, sc = P.mean(0), _extent(P)
    A = np.vstack([((P - mu) / sc).T, np.ones(len(P))])
    y = np.append((b - mu) / sc, 1.0)
    try:
        _, r = nnls(A, y, maxiter=50 * A.shape[1])
    except Exception:  # noqa
        return None
    return float(r)


def _check_shape_finite(c, X, n, d, what):
    X = np.asarray(X)
    if not c.require(X.ndim == 2 and X.shape == (n, d), f"{what}: exactly the requested number of samples, shape (n, d)",
                     mechanism="shape", got=list(X.shape), want=[n, d]):
        return None
    if not c.require(X.dtype.kind == "f" and bool(np.all(np.isfinite(X))), f"{what}: every sample is finite",
                     mechanism="nonfinite", dtype=str(X.dtype), n_bad=int(np.sum(~np.isfinite(X))) if X.dtype.kind == "f" else -1):
        return None
    return X


def _membership_cloud(c, P, hull, X, orng, what="sample_in_hull"):
    """every row of X in conv(P): half-spaces on all, LP on <= 50 random rows and on flagged rows."""
    sc = _extent(P)
    exc = _halfspace_excess(hull.equations, X) / sc
    c.margin("half-space excess of samples / tol", float(max(np.max(exc), 0.0)), TOL_IN)
    c.note("max_halfspace_excess_rel", float(np.max(exc)))
    flagged = np.flatnonzero(exc > TOL_IN)
    confirmed, band_false = [], 0
    for j in flagged[:25]:
        t = _lp_hull_rel(P, X[j])
        if t is None:
            c.inconclusive("LP failed on a flagged sample", abort=False)
            continue
        if t > TOL_LP:
            confirmed.append((int(j), float(exc[j]), t))
            continue
        r = _nnls_hull_rel(P, X[j])
        if r is None:
            c.inconclusive("NNLS failed on a flagged sample", abort=False)
        elif r > 1e-10:
            confirmed.append((int(j), float(exc[j]), r))
        else:
            band_false += 1
    c.require(not confirmed, f"{what}: every sample lies in the convex hull of the cloud (half-space test confirmed by LP / NNLS)",
              mechanism="sample-outside-hull", n_flagged=int(flagged.size), of=int(len(X)),
              witnesses=[{"row": j, "halfspace_excess_rel": e, "convex_combination_residual_rel": t, "sample": X[j]}
                         for j, e, t in confirmed[:3]])
    if band_false:
        c.note("halfspace_flags_not_confirmed", band_false)
    pick = orng.choice(len(X), size=min(50, len(X)), replace=False)
    worst = 0.0
    for j in pick:
        t = _lp_hull_rel(P, X[j])
        if t is None:
            c.inconclusive("LP failed", abort=False)
            continue
        worst = max(worst, t)
        if t > TOL_LP:
            c.require(False, f"{what}: a sample is a convex combination of the cloud's points (LP)",
                      mechanism="sample-outside-hull", row=int(j), residual_rel=t, sample=X[j],
                      halfspace_excess_rel=float(exc[j]))
            break
    else:
        c.require(True, "LP spot checks")
    c.margin("LP convex-combination residual / tol", worst, TOL_LP)


def _cone_normals(Mt):
    """Inward facet normals of cone{Mt x : x >= 0} (full row rank): candidates from (m-1)-subsets of columns."""
    U = oracles.zonotope_normals(Mt)
    if not len(U):
        return np.zeros((0, Mt.shape[0]))
    G = U @ Mt
    tol = 1e-9 * float(np.max(np.abs(G)))
    out = []
    for u, g in zip(U, G):
        if np.all(g >= -tol):
            out.append(u)
        if np.all(g <= tol):
            out.append(-u)
    return np.array(out) if out else np.zeros((0, Mt.shape[0]))


def _cone_depth(Mt, apex, B):
    """min over facets of u.(b - apex) (>= 0 inside apex + cone(Mt)); +inf when the cone is the whole space."""
    N = _cone_normals(Mt)
    if not len(N):
        return np.full(len(B), np.inf)
    return np.min((B - apex) @ N.T, axis=1)


def _eff_system(inp, rel):
    s = dict(inp)
    if not rel:
        s["K"], s["baseline"], s["kkind"], s["basekind"] = None, None, "none", "zero"
    return s


def _corner_matrix(lbv, ubv):
    n = lbv.size
    return np.array([[ubv[j] if (k >> j) & 1 else lbv[j] for j in range(n)] for k in range(2 ** n)])


def _engine_name(e):
    return "None" if e is None else str(e)


def _call_quiet(c, fn, *a, **k):
    with warnings.catch_warnings():
        warnings.simplefilter("ignore")          # Sobol: n not a power of two, etc.
        return c.call(fn, *a, **k)


# =============================================================================================== helpers: statistics

def _chi2_uniform_cells(counts, n):
    from scipy.stats import chi2
    e = n / counts.size
    stat = float(np.sum((counts - e) ** 2) / e)
    dof = counts.size - 1
    z = (counts - e) / np.sqrt(e)
    worst = np.argsort(-np.abs(z))[:4]
    return stat, dof, float(chi2.sf(stat, dof)), [{"cell": int(j), "count": int(counts[j]), "expected": round(e, 1)} for j in worst]


def _cube_tests(U, d):
    """Tests of 'rows of U are i.i.d. uniform on [0,1]^d'.  Returns list of (name, stat, dof, p, worst)."""
    from scipy.stats import kstest
    n = len(U)
    out = []
    kfine = {2: 32, 3: 10, 4: 5}[d]
    kcoarse = {2: 4, 3: 3, 4: 2}[d]
    for name, k in (("chi2-fine", kfine), ("chi2-coarse", kcoarse)):
        idx = np.clip(np.floor(U * k).astype(int), 0, k - 1)
        flat = np.ravel_multi_index(idx.T, (k,) * d)
        counts = np.bincount(flat, minlength=k ** d)
        stat, dof, p, worst = _chi2_uniform_cells(counts, n)
        out.append((f"{name}(k={k})", stat, dof, p, worst))
    for j in range(d):
        r = kstest(np.clip(U[:, j], 0.0, 1.0), "uniform")
        out.append((f"ks-axis{j}", float(r.statistic), 0, float(r.pvalue), []))
    return out


def _simplex_to_cube(S):
    """Rows of S uniform on {s >= 0, sum s <= 1} (Dirichlet(1) without its last weight) -> i.i.d. uniform on the cube:
    s_j / (1 - s_1 - .. - s_{j-1}) ~ Beta(1, d-j), independent; u_j = 1 - (1 - ratio)^(d-j)."""
    n, d = S.shape
    U = np.empty_like(S)
    rest = np.ones(n)
    for j in range(d):
        ratio = np.clip(S[:, j] / np.maximum(rest, 1e-300), 0.0, 1.0)
        U[:, j] = 1.0 - (1.0 - ratio) ** (d - j)
        rest = rest - S[:, j]
    return U


def _two_sample_chi2(la, lb_, ncell, min_pooled=100):
    """Two-sample chi-square on integer cell labels; cells with pooled count < min_pooled are merged into one."""
    from scipy.stats import chi2
    a = np.bincount(la, minlength=ncell).astype(float)
    b = np.bincount(lb_, minlength=ncell).astype(float)
    small = (a + b) < min_pooled
    if small.any():
        a = np.append(a[~small], a[small].sum())
        b = np.append(b[~small], b[small].sum())
    keep = (a + b) > 0
    a, b = a[keep], b[keep]
    na, nb = a.sum(), b.sum()
    k1, k2 = np.sqrt(nb / na), np.sqrt(na / nb)
    terms = (k1 * a - k2 * b) ** 2 / (a + b)
    stat, dof = float(terms.sum()), int(a.size - 1)
    worst = np.argsort(-terms)[:4]
    detail = [{"cell": int(j), "dreye_frac": round(float(a[j] / na), 5), "reference_frac": round(float(b[j] / nb), 5)} for j in worst]
    return stat, dof, (float(chi2.sf(stat, dof)) if dof > 0 else 1.0), detail, int(a.size)


def _judge_tests(c, tests, kind):
    pmin = 1.0
    for name, stat, dof, p, worst in tests:
        pmin = min(pmin, p)
        c.require(p >= ALPHA, f"default engine: samples are uniformly distributed over the hull ({kind}, {name})",
                  mechanism="non-uniform", test=name, statistic=stat, dof=dof, p_value=p, worst_cells=worst, kind=kind)
    c.note("p_values", {name: p for name, stat, dof, p, worst in tests})
    c.note("statistics", {name: [round(stat, 3), dof] for name, stat, dof, p, worst in tests})
    c.margin("log10(alpha)/log10(p_min) (>=1 would be a violation)", np.log10(max(pmin, 1e-300)) / np.log10(ALPHA), 1.0)
    return pmin


def _whitened_frame(V):
    """Affine frame in which the vertex set V has identity covariance: y = (x - mu) @ W ; x = y @ Winv + mu."""
    mu = V.mean(0)
    C = np.cov((V - mu).T)
    w, Q = np.linalg.eigh(np.atleast_2d(C))
    w = np.maximum(w, 1e-300)
    W = Q / np.sqrt(w)
    Winv = (Q * np.sqrt(w)).T
    return mu, W, Winv


def _rejection_sample(rs, accept, mu, Winv, lo, hi, want, max_prop):
    """Uniform points of the accepted region: proposals uniform in the box [lo, hi] of the whitened frame."""
    got, tot, prop = [], 0, 0
    d = lo.size
    while tot < want and prop < max_prop:
        Y = rs.uniform(lo, hi, (200000, d))
        prop += len(Y)
        Xc = Y @ Winv + mu
        ok = accept(Xc)
        got.append(Xc[ok])
        tot += int(ok.sum())
    R = np.concatenate(got)[:want]
    return R, tot / max(prop, 1)


def _partitions(rs, d, lo, hi):
    """Data-independent partitions of the whitened box: (a) 5 random half-spaces through random points near the
    centre (<= 32 cells), (b) a coarse grid."""
    h = 5
    dirs = rs.normal(size=(h, d))
    dirs /= np.linalg.norm(dirs, axis=1, keepdims=True)
    mid = 0.5 * (lo + hi)
    thr = dirs @ mid + rs.uniform(-0.15, 0.15, h) * float(np.min(hi - lo))
    g = {2: 6, 3: 3, 4: 3}[d]

    def lab_half(Y):
        bits = (Y @ dirs.T > thr).astype(int)
        return bits @ (1 << np.arange(h))

    def lab_grid(Y):
        idx = np.clip(np.floor((Y - lo) / (hi - lo) * g).astype(int), 0, g - 1)
        return np.ravel_multi_index(idx.T, (g,) * d)

    return [("half-spaces", lab_half, 2 ** h), (f"grid(g={g})", lab_grid, g ** d)]


# =============================================================================================== clouds

def _rot(rng, d):
    Q, _ = np.linalg.qr(rng.normal(size=(d, d)))
    return Q


def _make_cloud(rng, cls, d):
    scale = float(np.exp(rng.uniform(-2, 3)))
    off = rng.normal(0, 3, d) * scale
    if cls == "random":
        k = int(rng.integers(d + 1, 40))
        P = rng.normal(0, 1, (k, d))
    elif cls == "interior":
        k0 = int(rng.integers(d + 1, 9))
        V = rng.normal(0, 1, (k0, d))
        ni = int(rng.integers(20, 200))
        I = rng.dirichlet(np.ones(k0) * rng.uniform(0.3, 3), ni) @ V
        P = np.vstack([V, I])
        for _ in range(int(rng.integers(0, 8))):  # points (nearly) collinear with two vertices, on / next to an edge
            a, b = rng.choice(k0, 2, replace=False)
            p = V[a] + rng.uniform(0.1, 0.9) * (V[b] - V[a])
            eps = [0.0, 1e-15, 1e-13, 1e-11, 1e-9, 1e-7][rng.integers(6)]
            P = np.vstack([P, p + eps * rng.normal(0, 1, d)])
        if rng.integers(2):                      # duplicated rows (vertices and interior points)
            P = np.vstack([P, P[rng.integers(len(P), size=5)]])
        P = P[rng.permutation(len(P))]
    elif cls == "flat":
        k = int(rng.integers(d + 2, 30))
        nflat = int(rng.integers(1, d))          # number of full-size directions (1 = nearly collinear)
        thick = 10.0 ** rng.uniform(-3, -1)
        sz = np.where(np.arange(d) < nflat, 1.0, thick)
        P = rng.uniform(-1, 1, (k, d)) * sz
        # guarantee the stated thickness in every thin direction
        for j in range(nflat, d):
            P[2 * (j - nflat) % k, j] = thick
            P[(2 * (j - nflat) + 1) % k, j] = -thick
        P = P @ _rot(rng, d).T
    elif cls == "skewed":
        k = int(rng.integers(d + 2, 30))
        cond = 10.0 ** rng.uniform(1, 4)
        sv = np.logspace(0, -np.log10(cond), d)
        A = _rot(rng, d) @ np.diag(sv) @ _rot(rng, d).T
        P = rng.normal(0, 1, (k, d)) @ A.T
    elif cls == "lattice":
        g = int(rng.integers(1, 4))
        grid = np.array(np.meshgrid(*[np.arange(g + 1)] * d, indexing="ij")).reshape(d, -1).T.astype(float)
        must = np.vstack([np.zeros(d), np.eye(d) * g])
        take = rng.random(len(grid)) < rng.uniform(0.2, 1.0)
        P = np.unique(np.vstack([must, grid[take]]), axis=0)
        P = P[rng.permutation(len(P))]
        step = [1.0, 0.5, 2.5][rng.integers(3)]
        return P * step + np.round(rng.normal(0, 3, d))
    else:  # gamut-corners
        nsrc = int(rng.integers(d, d + 3))
        s = gen.make_system(rng, m=d, n=nsrc, ubkind="finite")
        Mt, c0, lbv, ubv = gen.sys_arrays(s)
        return _corner_matrix(lbv, ubv) @ Mt.T + c0
    return P * scale + off


# =============================================================================================== clause 1: sample_in_hull contract

def gen_hull(rng, i):
    eng = ENGINES[i % 4]
    cls = CLOUDS[(i // 4) % 6]
    d = int(rng.integers(2, 5))
    n = N_UNIF if i % 13 == 12 else NS[(i // 24) % 5 if rng.integers(2) else rng.integers(5)]
    P = _make_cloud(rng, cls, d)
    as_int = bool(cls == "lattice" and np.all(P == np.round(P)) and rng.integers(2))
    return {"P": P.astype(int) if as_int else P, "cls": cls, "n": int(n), "engine": eng,
            "seed": _seed(rng), "seed2": int(rng.integers(0, 2 ** 31 - 1)),
            # documented argument forms: seed as numpy Generator, engine as scipy QMCEngine instance
            "seedform": "generator" if rng.integers(4) == 0 else "int",
            "engform": "instance" if (eng is not None and rng.integers(4) == 0) else "name"}


def _seed_arg(inp, seed):
    return np.random.default_rng(int(seed)) if inp.get("seedform") == "generator" else int(seed)


def _engine_arg(inp, eng, d, seed):
    if eng is None or inp.get("engform") != "instance":
        return eng
    from scipy.stats import qmc
    return {"Sobol": qmc.Sobol, "Halton": qmc.Halton, "LHC": qmc.LatinHypercube}[eng](d + 1, seed=int(seed) % (2 ** 32))


def chk_hull(inp, c):
    P, n, eng, seed = inp["P"], int(inp["n"]), inp["engine"], int(inp["seed"])
    d = P.shape[1]
    c.cell("seed=" + inp.get("seedform", "int"), "engine-arg=" + inp.get("engform", "name"))
    c.cell("api=sample_in_hull", "engine=" + _engine_name(eng), f"d={d}", "cloud=" + inp["cls"], f"n={n}", "l1=none",
           "dtype=" + P.dtype.kind)
    Pf = np.asarray(P, dtype=float)
    if np.linalg.matrix_rank(Pf - Pf.mean(0), tol=1e-9 * _extent(Pf)) < d:
        c.unmet("cloud not full-dimensional")
    hull = _oracle_hull(c, Pf)
    X = _check_shape_finite(c, _call_quiet(c, dreye.sample_in_hull, P.copy(), n, seed=_seed_arg(inp, seed),
                                           engine=_engine_arg(inp, eng, d, seed), _where="dreye.sample_in_hull"),
                            n, d, "sample_in_hull")
    if X is None:
        return
    _membership_cloud(c, Pf, hull, X, np.random.default_rng([seed, 13]))
    X2 = np.asarray(_call_quiet(c, dreye.sample_in_hull, P.copy(), n, seed=_seed_arg(inp, seed),
                                engine=_engine_arg(inp, eng, d, seed), _where="dreye.sample_in_hull (2nd call)"))
    c.require(X2.shape == X.shape and np.array_equal(X, X2), "identical seed gives bit-identical samples",
              mechanism="not-reproducible:" + _engine_name(eng), engine=_engine_name(eng), seed=seed, n=n,
              n_rows_differing=int(np.sum(np.any(X != X2, axis=1))) if X2.shape == X.shape else -1)
    ok, X3 = c.try_call(lambda: _quiet(dreye.sample_in_hull, P.copy(), n, seed=int(inp["seed2"]), engine=eng))
    if ok:
        X3 = np.asarray(X3)
        c.note("different_seed_gives_different_samples", bool(X3.shape != X.shape or not np.array_equal(X, X3)))
    c.nontrivial(n >= 2)
    c.note("n_points_cloud", int(len(P)))
    c.note("n_hull_vertices_oracle", int(len(hull.vertices)))
    c.note("first_sample", X[0])


def _seed(rng):
    """int seeds: mostly random 31-bit, sometimes edge values."""
    if rng.integers(8) == 0:
        return [0, 1, 2 ** 32 - 1, 2 ** 40 + 7][rng.integers(4)]
    return int(rng.integers(0, 2 ** 31 - 1))


def _quiet(fn, *a, **k):
    with warnings.catch_warnings():
        warnings.simplefilter("ignore")
        return fn(*a, **k)


# =============================================================================================== clause 2: sample_in_gamut without l1

def gen_gamut(rng, i):
    eng = ENGINES[i % 4]
    ubkind = "inf" if (i // 4) % 3 == 2 else "finite"
    m = 2 + (i // 12) % 3
    nsrc = int(rng.integers(m, m + 4))
    s = gen.make_system(rng, m=m, n=nsrc, ubkind=ubkind)
    n = N_UNIF if i % 17 == 16 else NS[rng.integers(5)]
    s.update({"n": int(n), "engine": eng, "seed": _seed(rng), "seed2": int(rng.integers(0, 2 ** 31 - 1)),
              "relative": bool(rng.integers(2))})
    return s


def _gamut_membership(c, X, Mt, c0, lbv, ubv, orng, mech, what, n_lp=12):
    """Closed-form depth of every sample in the gamut {Mt x + c0 : lb <= x <= ub} (+ LP spot checks).
    Returns (fraction outside, min depth / extent)."""
    bounded = bool(np.all(np.isfinite(ubv)))
    if bounded:
        Z = oracles.Zonotope(Mt, c0, lbv, ubv)
        if not Z.full_dim:
            c.unmet("gamut not full-dimensional")
        ext = Z.extent
        dep = Z.depth(X) / ext
    else:
        apex = Mt @ lbv + c0
        ext = float(np.max(np.abs(X - apex))) + 1e-300
        if np.linalg.matrix_rank(Mt) < Mt.shape[0]:
            c.unmet("gamut not full-dimensional")
        dep = _cone_depth(Mt, apex, X) / ext
    out = np.flatnonzero(dep < -TOL_IN)
    frac = float(out.size) / len(X)
    worst = out[np.argsort(dep[out])[:3]] if out.size else out
    wit = []
    for j in worst:
        t, _ = oracles.lp_feasible_residual(Mt, c0, lbv, ubv, X[j])
        wit.append({"row": int(j), "sample": X[j], "depth_rel": float(dep[j]), "lp_residual_rel": None if t is None else t / ext})
    c.require(out.size == 0, what, mechanism=mech, fraction_outside=round(frac, 4), n=int(len(X)),
              min_depth_rel=float(np.min(dep)), witnesses=wit)
    # LP confirmation of the closed form on a few rows (both directions)
    pick = orng.choice(len(X), size=min(n_lp, len(X)), replace=False)
    for j in pick:
        t, _ = oracles.lp_feasible_residual(Mt, c0, lbv, ubv, X[j])
        if t is None:
            c.inconclusive("LP failed", abort=False)
            continue
        if dep[j] >= -TOL_IN:
            c.require(t <= TOL_LP * ext, what + " (LP: reproducible by in-bound intensities)", mechanism=mech,
                      row=int(j), lp_residual_rel=t / ext, depth_rel=float(dep[j]))
    c.note("min_depth_over_extent", float(np.min(dep)))
    if out.size == 0:
        c.margin("negative depth of samples / tol", float(max(-np.min(dep), 0.0)), TOL_IN)
    return frac, float(np.min(dep))


def chk_gamut(inp, c):
    rel, eng, n, seed = bool(inp["relative"]), inp["engine"], int(inp["n"]), int(inp["seed"])
    s = _eff_system(inp, rel)
    Mt, c0, lbv, ubv = gen.sys_arrays(s)
    m = Mt.shape[0]
    bounded = bool(np.all(np.isfinite(ubv)))
    c.cell("api=sample_in_gamut", "engine=" + _engine_name(eng), f"m={m}", f"n={n}", "l1=none", f"relative={rel}",
           "gamut=bounded" if bounded else "gamut=unbounded", *gen.sys_cells(inp)[2:6])
    est = c.call(gen.make_estimator, dreye, inp, _where="ReceptorEstimator+register_system")
    X = _check_shape_finite(c, _call_quiet(c, est.sample_in_gamut, n, seed=seed, engine=eng, relative=rel,
                                           _where="ReceptorEstimator.sample_in_gamut"), n, m, "sample_in_gamut")
    if X is None:
        return
    orng = np.random.default_rng([seed, 17])
    _gamut_membership(c, X, Mt, c0, lbv, ubv, orng, "sample-outside-gamut:" + ("bounded" if bounded else "unbounded"),
                      "every sample lies in the system's gamut")
    if not bounded:
        # what the code does there: it samples the image of the box lb <= x <= lb + 1 (recorded, not demanded)
        Zu = oracles.Zonotope(Mt, c0, lbv, lbv + 1.0)
        c.note("all_samples_in_image_of_unit_box", bool(np.all(Zu.depth(X) >= -TOL_IN * Zu.extent)))
    X2 = np.asarray(_call_quiet(c, est.sample_in_gamut, n, seed=seed, engine=eng, relative=rel,
                                _where="ReceptorEstimator.sample_in_gamut (2nd call)"))
    c.require(X2.shape == X.shape and np.array_equal(X, X2), "identical seed gives bit-identical samples",
              mechanism="not-reproducible:" + _engine_name(eng), engine=_engine_name(eng), seed=seed, n=n)
    ok, X3 = c.try_call(lambda: _quiet(est.sample_in_gamut, n, seed=int(inp["seed2"]), engine=eng, relative=rel))
    if ok:
        X3 = np.asarray(X3)
        c.note("different_seed_gives_different_samples", bool(X3.shape != X.shape or not np.array_equal(X, X3)))
    c.nontrivial(n >= 2)
    c.note("first_sample", X[0])


# =============================================================================================== clause 3: requested total l1

L1_KINDS = ["bounded", "cone", "bounded", "cone-abs", "offset", "dichromat"]


def gen_l1(rng, i):
    eng = ENGINES[i % 4]
    kind = L1_KINDS[(i // 4) % 6]
    m = int(rng.integers(3, 5))
    rel = bool(rng.integers(3) != 0)
    kk = ["none", "scalar", "vector", "matrix"][rng.integers(4)]
    if kind == "bounded":
        s = gen.make_system(rng, m=m, n=int(rng.integers(m, m + 3)), ubkind="finite", kkind=kk)
    elif kind == "cone":
        s = gen.make_system(rng, m=m, n=int(rng.integers(m, m + 4)), ubkind="inf", lbkind="zero", basekind="zero", kkind=kk)
    elif kind == "cone-abs":
        s = gen.make_system(rng, m=m, n=int(rng.integers(m, m + 4)), ubkind="inf", lbkind="zero", kkind=kk,
                            basekind=["scalar", "vector"][rng.integers(2)])
        rel = False
    elif kind == "offset":
        if rng.integers(2):
            s = gen.make_system(rng, m=m, n=int(rng.integers(m, m + 4)), ubkind="inf", lbkind="pos", kkind=kk)
        else:
            s = gen.make_system(rng, m=m, n=int(rng.integers(m, m + 4)), ubkind="inf", lbkind="zero", kkind=kk,
                                basekind=["scalar", "vector"][rng.integers(2)])
            rel = True
    else:
        s = gen.make_system(rng, m=2, n=int(rng.integers(2, 5)), ubkind=["finite", "inf"][rng.integers(2)],
                            kkind=["none", "scalar", "vector"][rng.integers(3)])
    if i % 5 == 3 and np.atleast_2d(s["A"]).shape[1] > np.atleast_2d(s["A"]).shape[0]:
        # (only with a surplus source, so that the chromatic gamut stays full-dimensional)
        # a degenerate source: switched off (lb == ub == 0), pinned (lb == ub > 0) or dark (excites no receptor): several
        # combinations of bounds then give the same (possibly zero) capture
        kinds = ["dark", "off", "pinned"] if np.all(np.isfinite(gen.sys_arrays(s)[3])) else ["dark"]
        gen.degenerate_source(rng, s, kinds[rng.integers(len(kinds))])
    Mt, c0, lbv, ubv = gen.sys_arrays(_eff_system(s, rel))
    col = Mt.sum(axis=0)
    if np.all(np.isfinite(ubv)):
        tmin = c0.sum() + np.sum(np.minimum(col * lbv, col * ubv))
        tmax = c0.sum() + np.sum(np.maximum(col * lbv, col * ubv))
        l1 = tmin + rng.uniform(0.1, 0.9) * (tmax - tmin)
    else:
        t0 = float((Mt @ lbv + c0).sum())
        l1 = t0 * (1 + rng.uniform(0.2, 3)) if t0 > 1e-9 else float(np.exp(rng.uniform(-3, 5)))
    n = N_UNIF if i % 19 == 18 else NS[1 + rng.integers(4)]
    s.update({"n": int(n), "engine": eng, "seed": _seed(rng), "relative": rel, "l1": float(l1),
              "kind": kind})
    return s


def _chroma_check(c, X, Pcorn, orng):
    """chromaticity (L1-normalised sample) inside the hull of the chromaticities of the rows of Pcorn."""
    m = X.shape[1]
    Pn = Pcorn / Pcorn.sum(axis=1, keepdims=True)
    Xn = X / X.sum(axis=1, keepdims=True)
    Pc, Xc = Pn[:, :-1], Xn[:, :-1]
    ext = float(np.max(Pc.max(0) - Pc.min(0)))
    if m == 2:
        exc = np.maximum(Pc.min() - Xc[:, 0], Xc[:, 0] - Pc.max()) / max(ext, 1e-300)
    else:
        if np.linalg.matrix_rank(Pc - Pc.mean(0), tol=1e-9) < m - 1:
            c.unmet("chromatic gamut not full-dimensional")
        hull = _oracle_hull(c, Pc)
        exc = _halfspace_excess(hull.equations, Xc) / ext
    flagged = np.flatnonzero(exc > 1e-9)
    bad = []
    for j in flagged[:10]:
        t = oracles.lp_chromatic_member(Pcorn, Xn[j])
        if t is None:
            c.inconclusive("projective LP failed", abort=False)
        elif t > 1e-7:
            bad.append({"row": int(j), "sample": X[j], "lp_residual": t, "halfspace_excess_rel": float(exc[j])})
    c.require(not bad, "l1 given: the chromaticity of every sample lies in the chromatic gamut (hull of the corner chromaticities)",
              mechanism="l1-chromaticity-outside", n_flagged=int(flagged.size), of=int(len(X)), witnesses=bad[:3])
    worst = 0.0
    for j in orng.choice(len(X), size=min(15, len(X)), replace=False):
        t = oracles.lp_chromatic_member(Pcorn, Xn[j])
        if t is None:
            c.inconclusive("projective LP failed", abort=False)
            continue
        worst = max(worst, t)
        c.require(t <= 1e-7, "l1 given: chromaticity is a convex combination of the corner chromaticities (projective LP)",
                  mechanism="l1-chromaticity-outside", row=int(j), residual=t, sample=X[j])
    c.margin("projective LP residual / tol", worst, 1e-7)
    c.note("max_chromatic_halfspace_excess", float(np.max(exc)))


def chk_l1(inp, c):
    rel, eng, n, seed, l1 = bool(inp["relative"]), inp["engine"], int(inp["n"]), int(inp["seed"]), float(inp["l1"])
    s = _eff_system(inp, rel)
    Mt, c0, lbv, ubv = gen.sys_arrays(s)
    m = Mt.shape[0]
    bounded = bool(np.all(np.isfinite(ubv)))
    apex = Mt @ lbv + c0
    scale = float(np.max(np.abs(Mt).sum(axis=1) * 1.0)) + float(np.max(np.abs(apex)))
    origin_cone = (not bounded) and bool(np.max(np.abs(apex)) <= 1e-12 * scale)
    gclass = "bounded" if bounded else ("cone-from-origin" if origin_cone else "unbounded-offset-apex")
    c.cell("api=sample_in_gamut", "engine=" + _engine_name(eng), f"m={m}", f"n={n}", "l1=given", f"relative={rel}",
           "gamut=" + gclass, "gamut=bounded" if bounded else "gamut=unbounded", *gen.sys_cells(inp)[2:6])
    if inp.get("degenerate"):
        c.cell("degenerate-source=" + inp["degenerate"])
    # corner captures that span the chromatic gamut (unbounded: apex and the generator directions)
    if bounded:
        Pcorn = _corner_matrix(lbv, ubv) @ Mt.T + c0
    else:
        # chromaticities of apex + cone = hull of the chromaticity of the apex and of the generator directions
        Pcorn = np.vstack([apex[None], Mt.T]) if not origin_cone else Mt.T.copy()
    Pcorn = Pcorn[np.abs(Pcorn).sum(axis=1) > 0]
    ub_code = np.where(np.isfinite(ubv), ubv, lbv + 1.0)
    Pcode = _corner_matrix(lbv, ub_code) @ Mt.T + c0       # every vertex set the implementation may normalise
    Pall = np.vstack([Pcorn, Pcode])
    Pall = Pall[np.abs(Pall).sum(axis=1) > 0]
    if np.any(Pall < -1e-12 * scale) or np.any(Pall.sum(axis=1) <= 1e-9 * scale) or l1 <= 0:
        # captures with negative entries (matrix K): 'total capture (L1)' and the chromaticity diagram are not defined
        c.unmet("corner captures not non-negative (total capture / chromaticity undefined)")
    Pn_ = Pcorn / Pcorn.sum(axis=1, keepdims=True)
    if m > 2 and np.linalg.matrix_rank(Pn_[:, :-1] - Pn_[:, :-1].mean(0), tol=1e-9) < m - 1:
        c.unmet("chromatic gamut not full-dimensional")
    if m == 2 and float(np.ptp(Pn_[:, 0])) <= 1e-9:
        c.unmet("chromatic gamut not full-dimensional (a single chromaticity)")
    if bounded:
        tot = (_corner_matrix(lbv, ubv) @ Mt.T + c0).sum(axis=1)
        if not (float(tot.min()) + 1e-9 * scale < l1 < float(tot.max()) - 1e-9 * scale):
            c.unmet("requested total capture not attainable by the bounded system")
    est = c.call(gen.make_estimator, dreye, inp, _where="ReceptorEstimator+register_system")
    ok, res = c.try_call(lambda: _quiet(est.sample_in_gamut, n, seed=seed, engine=eng, l1=l1, relative=rel))
    if not ok:
        e = res
        if m == 2 and isinstance(e, ValueError) and "2-D" in str(e):
            c.fail("l1 given, two receptors: sampling returns the requested samples (raised " + f"{type(e).__name__}: {str(e)[:80]})",
                   mechanism="l1-dichromat-raises", error=f"{type(e).__name__}: {str(e)[:160]}")
        c.fail(f"sample_in_gamut(l1=...) raised {type(e).__name__}: {str(e)[:160]}",
               mechanism=f"raise:sample_in_gamut(l1):{type(e).__name__}")
    X = _check_shape_finite(c, res, n, m, "sample_in_gamut(l1)")
    if X is None:
        return
    sums = X.sum(axis=1)
    dev = float(np.max(np.abs(sums - l1)))
    c.margin("row total vs l1 / tol", dev, 1e-10 * abs(l1))
    c.require(dev <= 1e-10 * abs(l1), "l1 given: every sample has the requested total capture", mechanism="l1-sum",
              l1=l1, worst_total=float(sums[np.argmax(np.abs(sums - l1))]))
    orng = np.random.default_rng([seed, 19])
    if np.all(np.abs(sums) > 0):
        _chroma_check(c, X, Pcorn, orng)
    mech = {"bounded": "l1-sample-not-in-gamut:bounded", "cone-from-origin": "l1-sample-not-in-gamut:cone-from-origin",
            "unbounded-offset-apex": "l1-sample-not-in-gamut:unbounded-offset-apex"}[gclass]
    frac, mind = _gamut_membership(c, X, Mt, c0, lbv, ubv, orng, mech,
                                   "l1 given: every sample lies in the system's gamut (is reproducible by in-bound intensities)",
                                   n_lp=8)
    c.note("fraction_of_l1_samples_outside_gamut", frac)
    X2 = np.asarray(_call_quiet(c, est.sample_in_gamut, n, seed=seed, engine=eng, l1=l1, relative=rel,
                                _where="ReceptorEstimator.sample_in_gamut(l1) (2nd call)"))
    c.require(X2.shape == X.shape and np.array_equal(X, X2), "identical seed gives bit-identical samples",
              mechanism="not-reproducible:" + _engine_name(eng), engine=_engine_name(eng), seed=seed, n=n)
    c.nontrivial(n >= 2)
    c.note("l1", l1)
    c.note("first_sample", X[0])


# =============================================================================================== clause 4: uniformity, exact pull-back

def gen_pull(rng, i):
    shape = ["cube", "simplex"][i % 2]
    d = 2 + (i // 2) % 3
    cond = 10.0 ** rng.uniform(0, 3)
    sv = np.logspace(0, -np.log10(cond), d) * float(np.exp(rng.uniform(-1, 2)))
    Mm = _rot(rng, d) @ np.diag(sv) @ _rot(rng, d).T
    t = rng.normal(0, 3, d) * sv[0]
    if shape == "cube":
        V = _corner_matrix(np.zeros(d), np.ones(d))
    else:
        V = np.vstack([np.zeros(d), np.eye(d)])
    cen = V.mean(0)
    pts = [V]
    ni = int(rng.integers(0, 40))
    if ni:
        pts.append(rng.dirichlet(np.ones(len(V)), ni) @ V)                 # interior points
    nb = int(rng.integers(2, 12))
    for _ in range(nb):                                                     # nearly collinear with two vertices / on a face
        k = int(rng.integers(2, d + 1))
        idx = rng.choice(len(V), size=k, replace=False)
        p = rng.dirichlet(np.ones(k)) @ V[idx]                              # a convex combination of k vertices
        eps = [0.0, 1e-12, 1e-9, 1e-6][rng.integers(4)]
        pts.append((p + eps * (cen - p))[None])                             # pushed inwards by eps: hull unchanged
    U = np.vstack(pts)
    U[len(V):] = U[len(V):][rng.permutation(len(U) - len(V))]
    perm = rng.permutation(len(U))
    P = U[perm] @ Mm.T + t
    return {"P": P, "M": Mm, "t": t, "shape": shape, "n": N_UNIF, "seed": _seed(rng)}


def chk_pull(inp, c):
    P, Mm, t, shape, n, seed = inp["P"], inp["M"], inp["t"], inp["shape"], int(inp["n"]), int(inp["seed"])
    d = P.shape[1]
    c.cell("api=sample_in_hull", "engine=None", f"d={d}", "uniform=pullback-" + shape, f"n={n}", "l1=none")
    X = _check_shape_finite(c, c.call(dreye.sample_in_hull, P.copy(), n, seed=seed, _where="dreye.sample_in_hull"), n, d,
                            "sample_in_hull")
    if X is None:
        return
    U = np.linalg.solve(Mm, (X - t).T).T
    tol = 1e-9 * np.linalg.cond(Mm)
    if shape == "cube":
        exc = float(max(np.max(-U), np.max(U - 1.0)))
    else:
        exc = float(max(np.max(-U), np.max(U.sum(axis=1) - 1.0)))
    c.margin("pull-back excess / tol", max(exc, 0.0), tol)
    c.require(exc <= tol, "every sample lies in the hull (pull-back inside the unit " + shape + ")",
              mechanism="sample-outside-hull", excess=exc)
    Uc = np.clip(U, 0.0, 1.0) if shape == "cube" else _simplex_to_cube(np.clip(U, 0.0, 1.0))
    tests = _cube_tests(Uc, d)
    _judge_tests(c, tests, "pull-back " + shape)
    c.nontrivial()
    c.note("cloud_points", int(len(P)))


# =============================================================================================== clause 5: uniformity, two-sample

TWO_KINDS = ["random", "skewed", "gamut", "flat", "random", "interior", "gamut", "skewed"]


def gen_two(rng, i):
    kind = TWO_KINDS[i % 8]
    d = 2 + (i // 2) % 3 if kind != "gamut" else 2 + (i // 4) % 3
    out = {"kind": kind, "n": N_UNIF, "seed": _seed(rng), "ref_seed": int(rng.integers(0, 2 ** 31 - 1))}
    if kind == "gamut":
        s = gen.make_system(rng, m=d, n=int(rng.integers(d, d + 3)), ubkind="finite")
        s["relative"] = bool(rng.integers(3) != 0)
        out.update(s)
    else:
        out["P"] = _make_cloud(rng, kind, d)
    return out


def chk_two(inp, c):
    kind, n, seed = inp["kind"], int(inp["n"]), int(inp["seed"])
    rs = np.random.default_rng([int(inp["ref_seed"]), 23])
    if kind == "gamut":
        rel = bool(inp["relative"])
        s = _eff_system(inp, rel)
        Mt, c0, lbv, ubv = gen.sys_arrays(s)
        d = Mt.shape[0]
        Z = oracles.Zonotope(Mt, c0, lbv, ubv)
        if not Z.full_dim:
            c.unmet("gamut not full-dimensional")
        V = _corner_matrix(lbv, ubv) @ Mt.T + c0
        c.cell("api=sample_in_gamut", "uniform=two-sample:gamut", f"m={d}", f"relative={rel}", "gamut=bounded",
               *gen.sys_cells(inp)[2:6])
        est = c.call(gen.make_estimator, dreye, inp, _where="ReceptorEstimator+register_system")
        X = c.call(est.sample_in_gamut, n, seed=seed, relative=rel, _where="ReceptorEstimator.sample_in_gamut")

        def accept(Xc):
            return Z.depth(Xc) >= 0.0
        ext = Z.extent
    else:
        P = inp["P"]
        d = P.shape[1]
        hull = _oracle_hull(c, P)
        V = P[hull.vertices]
        c.cell("api=sample_in_hull", "uniform=two-sample:cloud", "cloud=" + kind, f"d={d}")
        X = c.call(dreye.sample_in_hull, P.copy(), n, seed=seed, _where="dreye.sample_in_hull")
        eqs = hull.equations

        def accept(Xc):
            return _halfspace_excess(eqs, Xc) <= 0.0
        ext = _extent(P)
    c.cell("engine=None", f"n={n}", "l1=none")
    X = _check_shape_finite(c, X, n, d, "sampling")
    if X is None:
        return
    # membership of all samples (so that the partition labels are meaningful)
    if kind == "gamut":
        dep = Z.depth(X) / ext
        c.require(np.min(dep) >= -TOL_IN, "every sample lies in the system's gamut", mechanism="sample-outside-gamut:bounded",
                  min_depth_rel=float(np.min(dep)), fraction_outside=float(np.mean(dep < -TOL_IN)))
    else:
        exc = _halfspace_excess(eqs, X) / ext
        bad = np.flatnonzero(exc > TOL_IN)
        if bad.size:
            t = _lp_hull_rel(P, X[bad[np.argmax(exc[bad])]])
            c.require(t is not None and t <= TOL_LP, "every sample lies in the convex hull of the cloud",
                      mechanism="sample-outside-hull", n_flagged=int(bad.size), lp_residual_rel=t)
    mu, W, Winv = _whitened_frame(V)
    Yv = (V - mu) @ W
    lo, hi = Yv.min(0), Yv.max(0)
    pad = 1e-9 * (hi - lo)
    lo, hi = lo - pad, hi + pad
    R, acc = _rejection_sample(rs, accept, mu, Winv, lo, hi, n, max_prop={2: 2_000_000, 3: 6_000_000, 4: 16_000_000}[d])
    c.note("reference_sample", {"accepted": int(len(R)), "acceptance_rate": round(acc, 4)})
    if len(R) < 20000:
        c.inconclusive(f"rejection sampler accepted only {len(R)} points")
    Yx, Yr = (X - mu) @ W, (R - mu) @ W
    tests = []
    for name, lab, ncell in _partitions(rs, d, lo, hi):
        stat, dof, p, worst, cells = _two_sample_chi2(lab(Yx), lab(Yr), ncell)
        tests.append((f"two-sample-chi2:{name}[{cells} cells]", stat, dof, p, worst))
    _judge_tests(c, tests, "two-sample vs rejection sampler, " + kind)
    c.nontrivial()
    c.note("n_vertices", int(len(V)))


# =============================================================================================== clause 6: sampling after re-registration

def gen_rereg(rng, i):
    m = 2 + i % 3
    s = gen.make_system(rng, m=m, n=int(rng.integers(m, m + 3)), ubkind="finite")
    s.update({"n": int([7, 64, 1000][rng.integers(3)]), "engine": ENGINES[rng.integers(4)], "seed": _seed(rng),
              "rereg_seed": int(rng.integers(0, 2 ** 31 - 1)), "l1_first": bool(rng.integers(2))})
    return s


def chk_rereg(inp, c):
    """The gamut sampled from is the one of the CURRENTLY registered values: sample, change a registration on the same
    estimator, sample again and judge the second sample against the new system."""
    n, eng, seed = int(inp["n"]), inp["engine"], int(inp["seed"])
    est = c.call(gen.make_estimator, dreye, inp, _where="ReceptorEstimator+register_system")
    _call_quiet(c, est.sample_in_gamut, n, seed=seed, engine=eng, _where="ReceptorEstimator.sample_in_gamut (before)")
    if inp["l1_first"]:
        c.try_call(lambda: _quiet(est.sample_in_gamut, 5, seed=seed, l1=1.0))
    rr = np.random.default_rng(inp["rereg_seed"])
    ok, res = c.try_call(gen.reregister, rr, est, inp)
    if not ok:
        c.fail(f"registration call raised {type(res).__name__}: {str(res)[:100]}", mechanism="rereg-raised")
    op, t = res
    Mt, c0, lbv, ubv = gen.sys_arrays(t)
    m = Mt.shape[0]
    c.cell("api=sample_in_gamut", "rereg=" + op, "engine=" + _engine_name(eng), f"m={m}")
    X = _check_shape_finite(c, _call_quiet(c, est.sample_in_gamut, n, seed=seed, engine=eng,
                                           _where="ReceptorEstimator.sample_in_gamut (after " + op + ")"), n, m,
                            "sample_in_gamut")
    if X is None:
        return
    orng = np.random.default_rng([seed, 23])
    _gamut_membership(c, X, Mt, c0, lbv, ubv, orng, "sample-outside-gamut:after-reregistration",
                      "after re-registration every sample lies in the gamut of the currently registered system")
    # (samples are not compared with those of a fresh estimator: K differs by rounding between the two, and qhull's
    #  triangulation - hence the sample values, not their distribution - is not continuous in its input)
    c.nontrivial()
    c.note("rereg", op)


# =============================================================================================== registration

def _register(tier, weights, min_helds):
    sfx = "" if tier == "quick" else "_thorough"
    names = ["hull_contract", "gamut_contract", "l1_contract", "uniform_pullback", "uniform_two_sample", "after_reregistration"]
    fns = [(gen_hull, chk_hull), (gen_gamut, chk_gamut), (gen_l1, chk_l1), (gen_pull, chk_pull), (gen_two, chk_two),
           (gen_rereg, chk_rereg)]
    for name, (g, k), w, mh in zip(names, fns, weights, min_helds):
        M.add(name + sfx, g, k, weight=w, min_held=mh, tiers=(tier,))


# quick: 48 rounds of 14 cases  -> 288 / 144 / 144 / 48 / 48 cases; <= 48*6 + 48*2 = 384 statistical tests
_register("quick", (6, 3, 3, 1, 1, 2), (200, 100, 70, 36, 36, 60))
# thorough: 90 rounds of 483 cases -> 21600 / 10800 / 10800 / 90 / 180 cases; <= 90*6 + 180*2 = 900 statistical tests
_register("thorough", (240, 120, 120, 1, 2, 60), (15000, 7000, 5000, 70, 140, 3000))
