"""C14 — estimator answers depend only on what is currently registered; queries are pure.

History checker.  A generated history of public calls is executed on one live ReceptorEstimator.
After every step (a) the live object's registered values are compared with a small abstract state
model written from the docstrings (independent arithmetic), (b) a fresh *twin* estimator is built
from the model state in one canonical order and a battery of queries must give the same answers on
both, (c) for read-only queries the object's attributes and every caller-supplied array must be
byte-identical before and after.
"""
import hashlib
import warnings
import itertools

import numpy as np

from harness import runtime, oracles
from harness.core import Monitor

dreye = None
cp = None
ND = 14
M_REC = 3


def _setup():
    global dreye, cp
    dreye = runtime.load_dreye()
    import cvxpy as cp_
    cp = cp_


# ------------------------------------------------------------------ argument pools (fixed, small)

def pools():
    rng = np.random.default_rng(20240614)
    x = np.linspace(300, 300 + 10 * (ND - 1), ND)

    def bumps(k, w):
        pk = np.linspace(320, 410, k)
        return np.exp(-0.5 * ((x[None, :] - pk[:, None]) / w) ** 2)
    P = {"domain": x, "filters": bumps(M_REC, 28.0) + 0.02}
    P["S0"] = (bumps(4, 14.0) * np.array([[1.0], [0.8], [1.2], [0.9]]) + 0.01) * 0.35      # 4 sources (underdetermined)
    P["S1"] = (bumps(2, 20.0) * np.array([[1.1], [0.7]]) + 0.01) * 0.35                    # 2 sources (fewer than receptors)
    P["bounds"] = {"b0": (np.zeros(4), np.array([3.0, 2.0, 4.0, 2.5])), "b1": (np.array([0.1, 0.2, 0.1, 0.15]), np.array([3.0, 2.0, 4.0, 2.5])),
                   "binf": (None, None)}
    P["K"] = {"Ks": 1.7, "Kv": np.array([0.8, 1.3, 2.1]), "Km": np.array([[1.2, 0.1, 0.0], [0.2, 0.9, 0.1], [0.0, 0.3, 1.5]])}
    P["base"] = {"z": 0.0, "s": 0.3, "v": np.array([0.2, 0.05, 0.4])}
    P["bg"] = 0.2 + 0.1 * np.sin(x / 17.0) ** 2
    P["T0"] = np.array([[2.0, 2.5, 1.5], [6.0, 1.0, 0.5], [0.8, 0.9, 1.1]])
    P["T1"] = np.array([[1.0, 1.2, 0.9], [3.0, 3.5, 2.5], [0.2, 4.0, 0.3]])
    P["W"] = np.array([[1.0, 2.0, 0.5], [0.7, 0.7, 1.4], [1.5, 1.0, 1.0]])
    P["Xq"] = np.array([[0.5, 0.2, 1.0, 0.3], [1.5, 1.5, 0.1, 0.0]])
    P["sig"] = np.abs(np.sin(np.outer([1.0, 2.3], x / 23.0))) + 0.05
    return P


POOL = pools()

MUTATORS = ([("register_system", s, b) for s in ("S0", "S1") for b in ("given", "default")] +
            [("register_bounds", b) for b in ("b0", "b1", "lb-only")] +
            [("register_adaptation", k) for k in ("Ks", "Kv", "Km")] +
            [("register_baseline", b) for b in ("z", "s", "v")] +
            [("register_background_adaptation", a) for a in (False, True)] +
            [("register_system_adaptation", a) for a in (False, True)] +
            [("register_targets", w) for w in (False, True)] +
            [("fit",)])
QUERIES = [("q", n) for n in ("capture", "relative_capture", "system_capture", "system_relative_capture", "in_gamut",
                              "in_gamut_normalized", "range_of_solutions", "sample_in_gamut", "fit_gaussian", "fit_poisson",
                              "fit_excitation", "compute_gamut", "gamut_l1_scaling", "gamut_dist_scaling",
                              "fit_underdetermined", "minimize_variance",
                              # read-only queries about the REGISTERED targets (no argument)
                              "in_gamut_registered", "range_of_solutions_registered",
                              # seeded sampling with a quasi-Monte-Carlo engine
                              "sample_in_gamut_qmc")]
ALPHABET = MUTATORS + QUERIES

M = Monitor(
    pid="C14",
    setup=_setup,
    exhaustive_claim="every history of length <= 2 over the 39-symbol alphabet (quick and thorough) and every mutator-only history of length 3 (thorough), from a registered start state, with arguments from fixed pools",
    title="Estimator answers depend only on what is currently registered; queries are pure",
    rule=("histories over the alphabet {register_system(2 source sets x given/default bounds), register_bounds(3), "
          "register_adaptation(scalar/vector/matrix), register_baseline(3), register_background_adaptation(add F/T), "
          "register_system_adaptation(add F/T), register_targets(+-W), fit(), 19 read-only queries (two of them about the registered targets)}; enumerated exhaustively "
          "for length <= 2 (quick) and mutator-only length 3 (thorough), random histories of length <= 12 (quick) / 30 "
          "(thorough). non-trivial = history contains >= 2 mutators or a query after a mutator. distinct = the history itself"),
    # sized so that the weighted round-robin completes both enumerations (weights: len2 6, mut3 8, random 1, random_long 1)
    budget={"quick": ((-(-(len(ALPHABET) ** 2 + len(ALPHABET)) // 6)) * 7 + 7, 120),
            "thorough": ((-(-(len(MUTATORS) ** 3) // 8)) * 16 + 16, 2400)},
    anchors=[("dreye.api.estimator", "ReceptorEstimator." + n) for n in
             ("register_system", "register_bounds", "register_adaptation", "register_baseline",
              "register_background_adaptation", "register_system_adaptation", "register_targets", "fit", "in_hull",
              "range_of_solutions", "sample_in_hull", "hull_dist_scaling", "hull_l1_scaling", "compute_hull",
              "_get_P_from_A", "minimize_variance", "fit_underdetermined")],
    deciding=["estimator.ReceptorEstimator.register_system", "estimator.ReceptorEstimator.register_bounds",
              "estimator.ReceptorEstimator.register_background_adaptation", "estimator.ReceptorEstimator.register_targets",
              "estimator.ReceptorEstimator.fit"],
    required_cells={"all": ["op=" + a[0] for a in MUTATORS] + ["query=" + q[1] for q in QUERIES] +
                    ["purity-checked", "twin-compared", "state-compared"]},
    assumptions=["abstract model: K<-1/(Q+baseline) or K+1/(Q+baseline); register_bounds replaces only what is given; "
                 "register_system resets bounds to given/defaults; fit() sets B<-prediction, X<-fit",
                 "fits in the battery use a high-accuracy interior-point solver so that 1e-16 differences in K cannot flip an iterate count"],
    hard_timeout={"quick": 900, "thorough": 7200},
)


# ------------------------------------------------------------------ abstract state model

class Model:
    def __init__(self):
        self.filters, self.domain = POOL["filters"], POOL["domain"]
        self.w_dom = oracles.trapz_weights(self.domain)
        self.K = np.atleast_1d(1.0)
        self.baseline = np.atleast_1d(0.0)
        self.sources = None
        self.lb = self.ub = None
        self.B = self.W = self.X = None
        self.registered = False

    def A(self):
        val, _ = oracles.capture_oracle(self.filters, self.sources, self.w_dom)    # (n, m)
        return val.T

    def apply(self, op, live_pred=None):
        """Returns None if the op is valid, else the expected exception class name."""
        k = op[0]
        if k == "register_system":
            self.sources = POOL[op[1]]
            n = self.sources.shape[0]
            if op[2] == "given":
                self.lb, self.ub = POOL["bounds"]["b0"][0][:n].copy(), POOL["bounds"]["b0"][1][:n].copy()
            else:
                self.lb, self.ub = np.zeros(n), np.full(n, np.inf)
            self.registered = True
        elif k == "register_bounds":
            n = self.sources.shape[0]
            if op[1] == "lb-only":
                self.lb = POOL["bounds"]["b1"][0][:n].copy()
            else:
                self.lb, self.ub = POOL["bounds"][op[1]][0][:n].copy(), POOL["bounds"][op[1]][1][:n].copy()
        elif k == "register_adaptation":
            self.K = np.atleast_1d(POOL["K"][op[1]])
        elif k == "register_baseline":
            self.baseline = np.atleast_1d(POOL["base"][op[1]])
        elif k in ("register_background_adaptation", "register_system_adaptation"):
            if k == "register_background_adaptation":
                q = np.sum(self.filters * POOL["bg"] * self.w_dom, axis=-1)
            else:
                q = self.xadapt() @ self.A().T
            q = q + self.baseline
            self.K = (self.K + 1.0 / q) if op[1] else 1.0 / q
        elif k == "register_targets":
            self.B = POOL["T0"].copy()
            self.W = POOL["W"].copy() if op[1] else None
            self.X = None if self.X is None else self.X
        elif k == "fit":
            if self.B is None:
                return "AssertionError"
            self.X, self.B = live_pred
        return None

    def xadapt(self):
        return np.full(self.sources.shape[0], 0.7)


def live_apply(c, est, op):
    k = op[0]
    if k == "register_system":
        src = POOL[op[1]].copy()
        n = src.shape[0]
        if op[2] == "given":
            return c.try_call(est.register_system, src, lb=POOL["bounds"]["b0"][0][:n].copy(), ub=POOL["bounds"]["b0"][1][:n].copy())
        return c.try_call(est.register_system, src)
    if k == "register_bounds":
        n = est.A.shape[1]
        if op[1] == "lb-only":
            return c.try_call(est.register_bounds, lb=POOL["bounds"]["b1"][0][:n].copy())
        return c.try_call(est.register_bounds, lb=POOL["bounds"][op[1]][0][:n].copy(), ub=POOL["bounds"][op[1]][1][:n].copy())
    if k == "register_adaptation":
        v = POOL["K"][op[1]]
        return c.try_call(est.register_adaptation, v.copy() if isinstance(v, np.ndarray) else v)
    if k == "register_baseline":
        v = POOL["base"][op[1]]
        return c.try_call(est.register_baseline, v.copy() if isinstance(v, np.ndarray) else v)
    if k == "register_background_adaptation":
        return c.try_call(est.register_background_adaptation, POOL["bg"].copy(), add=op[1])
    if k == "register_system_adaptation":
        return c.try_call(est.register_system_adaptation, np.full(est.A.shape[1], 0.7), add=op[1])
    if k == "register_targets":
        return c.try_call(est.register_targets, POOL["T0"].copy(), W=(POOL["W"].copy() if op[1] else None))
    if k == "fit":
        return c.try_call(est.fit, **TIGHT())
    raise ValueError(op)


def TIGHT():
    return dict(solver=cp.CLARABEL, tol_gap_abs=1e-10, tol_gap_rel=1e-10, tol_feas=1e-10)


def new_live():
    est = dreye.ReceptorEstimator(POOL["filters"].copy(), domain=POOL["domain"].copy())
    return est


def build_twin(model):
    t = dreye.ReceptorEstimator(POOL["filters"].copy(), domain=POOL["domain"].copy(), K=model.K.copy(),
                                baseline=model.baseline.copy())
    if model.registered:
        lb = None if model.lb is None else model.lb.copy()
        ub = None if model.ub is None else model.ub.copy()
        t.register_system(model.sources.copy(), lb=lb, ub=ub)
        if model.B is not None:
            t.register_targets(model.B.copy(), W=(None if model.W is None else model.W.copy()))
    return t


# ------------------------------------------------------------------ queries

def run_query(est, name):
    """Returns ('ok', value) or ('raises', ExceptionTypeName).  Arguments are fresh copies; their checksums are
    verified by the caller through ARGS."""
    n = est.A.shape[1] if hasattr(est, "A") else 0
    T1 = POOL["T1"].copy()
    ARGS.clear()

    def arg(a):
        ARGS.append((a, a.tobytes()))
        return a
    try:
        if name == "capture":
            return "ok", est.capture(arg(POOL["sig"].copy()))
        if name == "relative_capture":
            return "ok", est.relative_capture(arg(POOL["sig"].copy()))
        if name == "system_capture":
            return "ok", est.system_capture(arg(POOL["Xq"][:, :n].copy()))
        if name == "system_relative_capture":
            return "ok", est.system_relative_capture(arg(POOL["Xq"][:, :n].copy()))
        if name == "in_gamut":
            return "ok", est.in_gamut(arg(T1))
        if name == "in_gamut_normalized":
            return "ok", est.in_gamut(arg(T1), normalized=True)
        if name == "in_gamut_registered":
            return "ok", est.in_gamut()
        if name == "range_of_solutions_registered":
            r = est.range_of_solutions(error="ignore")
            return "ok", np.concatenate([np.ravel(r[0]), np.ravel(r[1])])
        if name == "range_of_solutions":
            r = est.range_of_solutions(arg(T1), error="ignore")
            return "ok", np.concatenate([np.ravel(r[0]), np.ravel(r[1])])
        if name == "sample_in_gamut":
            return "ok", est.sample_in_gamut(6, seed=5)
        if name == "sample_in_gamut_qmc":
            with warnings.catch_warnings():
                warnings.simplefilter("ignore")
                return "ok", est.sample_in_gamut(8, seed=5, engine="Halton")
        if name == "fit_gaussian":
            X, B = est.fit(arg(T1), **TIGHT())
            return "ok", np.concatenate([np.ravel(X), np.ravel(B)])
        if name == "fit_poisson":
            X, B = est.fit(arg(T1), model="poisson", solver=cp.CLARABEL)
            return "ok", np.ravel(B)
        if name == "fit_excitation":
            X, B = est.fit(arg(T1[:1]), model="excitation")
            return "ok", np.ravel(B)
        if name == "compute_gamut":
            return "ok", np.atleast_1d(est.compute_gamut(seed=3))
        if name == "gamut_l1_scaling":
            return "ok", est.gamut_l1_scaling(arg(T1))
        if name == "gamut_dist_scaling":
            T2 = T1.copy()
            T2[2] = 0.0                       # an all-zero row: the method substitutes the neutral point internally
            return "ok", est.gamut_dist_scaling(arg(T2))
        if name == "fit_underdetermined":
            X, B = est.fit_underdetermined(arg(T1[:1]), underdetermined_opt="min", l2_eps=1e-4, solver=cp.CLARABEL)
            return "ok", np.concatenate([np.ravel(X), np.ravel(B)])
        if name == "minimize_variance":
            X, B, V = est.minimize_variance(arg(T1[:1]), solver=cp.CLARABEL, l2_eps=1e-3)
            return "ok", np.concatenate([np.ravel(B), np.ravel(V)])
    except Exception as e:  # noqa  -- the *kind* of failure is part of the answer
        tb = e.__traceback__
        while tb.tb_next is not None:
            tb = tb.tb_next
        if tb.tb_frame.f_code.co_filename == __file__:
            raise           # raised by this monitor's own code, not by the library: a harness error, never an answer
        return "raises", type(e).__name__
    raise ValueError(name)


ARGS = []
TOL = {"range_of_solutions_registered": 1e-6, "fit_excitation": 3e-2, "fit_poisson": 5e-3, "fit_gaussian": 1e-5, "range_of_solutions": 1e-6, "minimize_variance": 2e-3,
       "fit_underdetermined": 1e-4, "gamut_dist_scaling": 1e-7, "compute_gamut": 1e-9}
BATTERY = ["relative_capture", "system_relative_capture", "in_gamut", "fit_gaussian"]


def same_answer(name, a, b):
    if a[0] != b[0]:
        return False, f"{a[0]} vs {b[0]}"
    if a[0] == "raises":
        return a[1] == b[1], f"{a[1]} vs {b[1]}"
    x, y = np.asarray(a[1]), np.asarray(b[1])
    if x.shape != y.shape:
        return False, f"shape {x.shape} vs {y.shape}"
    if x.dtype == bool or y.dtype == bool:
        return bool(np.array_equal(x, y)), "boolean answers differ"
    tol = TOL.get(name, 1e-9)
    x, y = x.astype(float), y.astype(float)
    fx, fy = np.isfinite(x), np.isfinite(y)
    if not np.array_equal(fx, fy) or not np.array_equal(np.isnan(x), np.isnan(y)) or not np.array_equal(x[~fx & ~np.isnan(x)], y[~fy & ~np.isnan(y)]):
        return False, "different non-finite pattern"
    if not fx.any():
        return True, "all non-finite, same pattern"
    sc = max(1.0, float(np.max(np.abs(y[fy]))))
    d = float(np.max(np.abs(x[fx] - y[fy])))
    return d <= tol * sc, f"max |diff| {d:.3e} (tol {tol * sc:.1e})"


def state_digest(est):
    out = {}
    for k, v in sorted(vars(est).items()):
        if isinstance(v, np.ndarray):
            out[k] = hashlib.sha1(np.ascontiguousarray(v).tobytes()).hexdigest()[:12] + str(v.shape)
        else:
            out[k] = repr(v)[:60]
    return out


def compare_state(c, est, model, step):
    if not model.registered:
        return
    c.cell("state-compared")
    A = model.A()
    ok = np.shape(est.A) == A.shape and np.allclose(est.A, A, rtol=1e-10, atol=1e-300)
    c.require(ok, "registered capture matrix equals the captures of the currently registered sources", mechanism="state:A",
              step=step)
    c.require(np.array_equal(np.asarray(est.lb), model.lb) and np.array_equal(np.asarray(est.ub), model.ub),
              "registered bounds are exactly the currently registered values", mechanism="state:bounds", step=step,
              lb=np.asarray(est.lb), ub=np.asarray(est.ub), want_lb=model.lb, want_ub=model.ub)
    c.require(np.shape(est.K) == model.K.shape and np.allclose(est.K, model.K, rtol=1e-10, atol=0),
              "adaptation K follows the documented update rule (replace / add)", mechanism="state:K", step=step,
              got=np.asarray(est.K), want=model.K)
    c.require(np.array_equal(np.atleast_1d(est.baseline), model.baseline), "baseline is the registered value",
              mechanism="state:baseline", step=step)
    if model.B is not None:
        c.require(hasattr(est, "B") and np.allclose(est.B, model.B, rtol=1e-7, atol=1e-9), "registered targets",
                  mechanism="state:targets", step=step)
        Wm = np.broadcast_to(1.0, (M_REC,)) if model.W is None else model.W
        c.require(np.shape(est.W) == np.shape(Wm) and np.allclose(est.W, Wm), "registered weights (reset when omitted)",
                  mechanism="state:weights", step=step, got=np.asarray(est.W), want=np.asarray(Wm))


def run_history(c, hist):
    est = new_live()
    model = Model()
    # every history starts from a registered system so that queries are meaningful
    prefix = [("register_system", "S0", "given")]
    n_mut = 0
    for step, op in enumerate(prefix + list(hist)):
        if op[0] == "q":
            name = op[1]
            c.cell("query=" + name)
            before = state_digest(est)
            pre = {q: run_query(est, q) for q in BATTERY[:3]}
            ans = run_query(est, name)
            args_after = [(a.tobytes() == b) for a, b in ARGS]
            after = state_digest(est)
            c.cell("purity-checked")
            c.require(all(args_after), "a query never modifies arrays supplied by the caller", mechanism=f"caller-array-modified:{name}",
                      step=step)
            c.require(before == after, "a query does not change the estimator's registered state",
                      mechanism=f"state-changed-by-query:{name}", step=step,
                      changed=[k for k in set(before) | set(after) if before.get(k) != after.get(k)])
            post = {q: run_query(est, q) for q in BATTERY[:3]}
            for q in pre:
                okq, why = same_answer(q, pre[q], post[q])
                c.require(okq, "a query does not change the answer to a later query", mechanism=f"later-answer-changed:{name}",
                          later=q, why=why, step=step)
            # the query's own answer must equal the twin's
            twin = build_twin(model)
            ta = run_query(twin, name)
            okq, why = same_answer(name, ans, ta)
            c.cell("twin-compared")
            c.require(okq, "the answer equals that of a fresh estimator with the same registered values",
                      mechanism=f"twin-differs:{name}", why=why, step=step, history=[list(map(str, h)) for h in hist[:step]])
            continue
        c.cell("op=" + op[0])
        pred = None
        if op[0] == "fit" and model.B is not None:
            ok, pred = c.try_call(est.fit, model.B.copy(), **TIGHT())
            if not ok:
                c.note("fit_failed", str(pred)[:80])
                return
        ok, res = live_apply(c, est, op)
        expect = model.apply(op, live_pred=pred)
        if expect is not None:
            c.require((not ok) and type(res).__name__ == expect, f"{op[0]} without its precondition raises {expect}",
                      mechanism=f"invalid-op:{op[0]}", got=("returned" if ok else type(res).__name__))
            continue
        if not ok:
            c.fail(f"{op[0]}{op[1:]} raised {type(res).__name__}: {str(res)[:120]}", mechanism=f"raise:{op[0]}:{type(res).__name__}",
                   step=step)
        n_mut += 1
        compare_state(c, est, model, step)
        if op[0] == "fit":
            c.require(np.allclose(est.X, model.X, rtol=1e-7, atol=1e-9), "fit() stores the fit of the registered targets",
                      mechanism="state:fit-X", step=step)
        if step >= 1:
            twin = build_twin(model)
            c.cell("twin-compared")
            for q in BATTERY:
                okq, why = same_answer(q, run_query(est, q), run_query(twin, q))
                c.require(okq, "after a registration call every answer equals that of a fresh estimator with the same values",
                          mechanism=f"twin-differs-after:{op[0]}:{q}", why=why, step=step,
                          history=[list(map(str, h)) for h in hist[:step]])
    return n_mut


# ------------------------------------------------------------------ clauses

def hist_key(hist):
    return hashlib.sha1(repr(hist).encode()).hexdigest()[:16]


def chk_history(inp, c):
    hist = [tuple(h) for h in inp["history"]]
    n_mut = run_history(c, hist) or 0
    c.distinct_key = hist_key(hist)
    c.nontrivial(len(hist) >= 1)
    c.note("history", [" ".join(map(str, h)) for h in hist])


def _enum_len2(i):
    L = len(ALPHABET)
    if i < L:
        return [ALPHABET[i]]
    i -= L
    return [ALPHABET[i // L], ALPHABET[i % L]]


def gen_len2(rng, i):
    return {"history": [list(h) for h in _enum_len2(i)]}


def gen_mut3(rng, i):
    L = len(MUTATORS)
    return {"history": [list(MUTATORS[(i // (L * L)) % L]), list(MUTATORS[(i // L) % L]), list(MUTATORS[i % L])]}


def gen_random(rng, i):
    n = int(rng.integers(3, 13))
    return {"history": [list(ALPHABET[rng.integers(len(ALPHABET))]) for _ in range(n)]}


def gen_random_long(rng, i):
    n = int(rng.integers(10, 31))
    return {"history": [list(ALPHABET[rng.integers(len(ALPHABET))]) for _ in range(n)]}


M.add("exhaustive_len2", gen_len2, chk_history, weight=6, min_held=200,
      enumerated=lambda tier: len(ALPHABET) ** 2 + len(ALPHABET))
M.add("exhaustive_mut3", gen_mut3, chk_history, weight=8, min_held=200, enumerated=lambda tier: len(MUTATORS) ** 3,
      tiers=("thorough",))
M.add("random_histories", gen_random, chk_history, weight=1, min_held=20)
M.add("random_long", gen_random_long, chk_history, weight=1, min_held=20, tiers=("thorough",))
