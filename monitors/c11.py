"""C11 — layer decomposition honours every constraint and never worsens its fit.

Events: (X, P, B_pred) from ReceptorEstimator.fit_decomposition plus the per-iteration loss events
(decomp.step) emitted by the guarded hook.  Oracles: constraint closed forms; online trace checker
for the descent property; SLSQP / BVLS for the optimality of the factor fitted last; twin run for
seed determinism.
"""
import numpy as np
from scipy.optimize import minimize

from harness import runtime, oracles, gen
from harness.core import Monitor

dreye = None


def _setup():
    global dreye
    dreye = runtime.load_dreye()


M = Monitor(
    pid="C11",
    setup=_setup,
    title="Layer decomposition honours every constraint and never worsens its fit",
    rule=("cases: one bounded well-scaled non-negative system (2-4 receptors, 2-6 sources), 1-3 layers, random 0/1 mask with >= 1 "
          "source per layer (or all ones), equal-L1 constraint on/off, subsampling None / fraction / 'fast', opacity bounds, seed; "
          "targets = captures of a random layered ground truth plus noise (6-40 samples). non-trivial = >= 2 alternating iterations "
          "and a binding constraint (mask zero, equal-L1 with >1 layer, or an active bound). distinct = hash of rounded inputs"),
    budget={"quick": (480, 80), "thorough": (12000, 1500)},
    anchors=[("dreye.api.optimize.lsq_linear", "lsq_linear_decomposition"),
             ("dreye.api.estimator", "ReceptorEstimator.fit_decomposition")],
    deciding=["lsq_linear.lsq_linear_decomposition", "estimator.ReceptorEstimator.fit_decomposition"],
    required_cells={"all": ["layers=1", "layers=2", "layers=3", "mask=ones", "mask=random", "equal_l1=True", "equal_l1=False",
                            "subsample=None", "subsample=fraction", "subsample=fast", "opacity=default", "opacity=custom",
                            "determinism"]},
    required_events=["decomp.step"],
    assumptions=["SCS accuracy: constraints asserted within 1e-3 of the respective range",
                 "descent asserted on the hook's loss sequence: loss[k+1] <= loss[k] + 1e-3*loss[k] + 1e-4*||B-baseline||_F (SCS accuracy floor)",
                 "last factor optimal: loss(result) <= loss(oracle optimum) + 2e-3*(1+loss)"],
)


def gen_case(rng, i):
    m = int(rng.integers(2, 5))
    n = int(rng.integers(2, 7))
    s = gen.make_system(rng, m=m, n=n, ubkind="finite", kkind=["none", "scalar", "vector"][rng.integers(3)])
    Mt, c0, lbv, ubv = gen.sys_arrays(s)
    L = int(1 + i % 3)
    N = int(rng.integers(6, 41))
    default_layers = bool(i % 7 == 5)       # n_layers=None, mask=None: documented default of (receptors - 1) unmasked layers
    if default_layers:
        L = m - 1
    if default_layers or rng.integers(2):
        mask = np.ones((L, n))
        mk = "ones"
    else:
        mask = (rng.random((L, n)) < 0.6).astype(float)
        for l in range(L):
            if mask[l].sum() == 0:
                mask[l, rng.integers(n)] = 1
        mk = "random"
    Xt = rng.uniform(lbv, lbv + 0.7 * (ubv - lbv), (L, n)) * mask
    custom = bool(rng.integers(2))
    lbp, ubp = (float(rng.uniform(0, 0.2)), float(rng.uniform(0.6, 1.5))) if custom else (0.0, 1.0)
    Pt = rng.uniform(lbp, ubp, (N, L))
    B = Pt @ Xt @ Mt.T + c0
    B = B * (1 + 0.02 * rng.normal(0, 1, B.shape))
    B = np.maximum(B, c0 + 1e-6)
    s["registered"] = bool(rng.integers(5) == 0)
    s.update({"B": np.clip(B, 0, 100), "L": L, "mask": mask, "maskkind": mk, "equal": bool(rng.integers(2)),
              "subsample": [None, 0.5, "fast"][(i // 3) % 3], "lbp": lbp, "ubp": ubp, "custom": custom,
              "seed": (0 if i % 10 == 7 else int(rng.integers(1000))), "max_iter": int(rng.integers(4, 16)),
              "pass_mask": bool((mk == "random" or rng.integers(2)) and not default_layers),
              "default_layers": default_layers, "mask_as_list": bool(rng.integers(3) == 0)})
    return s


def loss_fn(Mt, c0, X, P, B):
    return float(np.linalg.norm(P @ X @ Mt.T + c0 - B))


def x_opt_given_P(Mt, c0, lbv, ubv, mask, equal, P, B, x0):
    L, n = mask.shape
    R = B - c0
    free = mask.astype(bool)

    def unpack(z):
        X = np.zeros((L, n))
        X[free] = z
        return X

    def f(z):
        X = unpack(z)
        E = P @ X @ Mt.T - R
        G = P.T @ E @ Mt
        return float(np.sum(E * E)), 2 * G[free]
    lo = np.broadcast_to(lbv, (L, n))[free]
    hi = np.broadcast_to(ubv, (L, n))[free]
    # masked-out entries are fixed at 0: feasible only if lb allows it; the code constrains X>=lb as well,
    # so with lb>0 and mask zeros the problem is infeasible for the code too (then it raises)
    cons = []
    if equal and L > 1:
        for l in range(1, L):
            def g(z, l=l):
                X = unpack(z)
                return X[l].sum() - X[0].sum()

            def gj(z, l=l):
                J = np.zeros((L, n))
                J[l] = 1
                J[0] = -1
                return J[free]
            cons.append({"type": "eq", "fun": g, "jac": gj})
    r = minimize(f, np.clip(x0[free], lo, hi), jac=True, method="SLSQP", bounds=list(zip(lo, hi)), constraints=cons,
                 options={"maxiter": 500, "ftol": 1e-15})
    X = unpack(np.clip(r.x, lo, hi))
    if equal and L > 1 and np.max(np.abs(X.sum(axis=1) - X[0].sum())) > 1e-8 * (1 + abs(X[0].sum())):
        return None
    return X


def chk_case(inp, c):
    ok, info = gen.regime_report(inp["A"], inp["lb"], inp["ub"], inp["K"], inp["baseline"], inp["B"])
    if not ok or np.any(inp["A"] < 0):
        c.unmet("outside the well-scaled non-negative regime")
    Mt, c0, lbv, ubv = gen.sys_arrays(inp)
    m, n = Mt.shape
    B, L, mask, equal = inp["B"], inp["L"], inp["mask"], inp["equal"]
    if np.any((mask == 0) & (np.broadcast_to(lbv, mask.shape) > 0)):
        c.unmet("mask forbids a source whose lower bound is positive (no feasible X)")
    if np.any(B - c0 < 0):
        c.unmet("targets below the baseline (the non-negative factorisation needs a non-negative light-induced part)")
    N = len(B)
    sub = inp["subsample"]
    c.cell(*gen.sys_cells(inp), f"layers={L}", "mask=" + inp["maskkind"], f"equal_l1={equal}",
           "subsample=" + ("None" if sub is None else ("fast" if sub == "fast" else "fraction")),
           "opacity=" + ("custom" if inp["custom"] else "default"))
    est = gen.live_or_new(c, dreye, inp)
    if inp.get("default_layers"):
        c.cell("layers=default(None)")
    mask_arg = None
    if inp["pass_mask"]:
        # a 0/1 mask is naturally written as a nested list; as ndarray it is handed over as float or int64 by the harness
        mask_arg = mask.astype(int).tolist() if inp.get("mask_as_list") else mask.copy()
        c.cell("mask-arg=" + ("list" if inp.get("mask_as_list") else "array"))
    kw = dict(n_layers=(None if inp.get("default_layers") else L), mask=mask_arg,
              lbp=inp["lbp"], ubp=inp["ubp"],
              max_iter=inp["max_iter"], seed=inp["seed"], subsample=sub, equal_l1norm_constraint=equal)
    runtime.EVENTS.clear()
    out = gen.est_query(c, est, "fit_decomposition", B.copy(), attrs=("X", "P", "B"), registered=bool(inp.get("registered")),
                        _where="ReceptorEstimator.fit_decomposition", **kw)
    steps = [f for k, f in c.events if k == "decomp.step"]
    if not c.require(isinstance(out, tuple) and len(out) == 3, "returns (X, P, B_pred)", mechanism="return-type"):
        return
    X, P, Bp = (np.asarray(o, float) for o in out)
    if not c.require(X.shape == (L, n) and P.shape == (N, L) and Bp.shape == (N, m) and np.all(np.isfinite(X)) and
                     np.all(np.isfinite(P)), "finite X (layers, sources), P (samples, layers), B_pred", mechanism="shape",
                     X=list(X.shape), P=list(P.shape)):
        return
    rngx = ubv - lbv
    tx = 1e-3 * rngx
    maskb = mask.astype(bool)
    lo = np.where(maskb, lbv[None, :], 0.0)
    c.require(np.all(X >= lo - tx) and np.all(X <= ubv[None, :] + tx), "per-layer intensities within the source bounds",
              mechanism="x-bounds", worst=float(max(np.max(lo - X), np.max(X - ubv[None, :]))))
    c.require(np.all(np.abs(X[~maskb]) <= 1e-3 * np.max(rngx)), "intensities are zero wherever the mask forbids a source",
              mechanism="mask-violated", worst=float(np.max(np.abs(X[~maskb]))) if np.any(~maskb) else 0.0)
    if equal and L > 1:
        rs = X.sum(axis=1)
        c.require(np.max(np.abs(rs - rs[0])) <= 2e-3 * (1 + float(np.max(rs))), "equal total intensity in every layer",
                  mechanism="unequal-l1", row_sums=rs)
    tp = 1e-3 * (inp["ubp"] - inp["lbp"])
    c.require(np.all(P >= inp["lbp"] - tp) and np.all(P <= inp["ubp"] + tp), "layer opacities within their bounds",
              mechanism="p-bounds", pmin=float(P.min()), pmax=float(P.max()))
    want = P @ X @ Mt.T + c0
    c.require(np.all(np.abs(Bp - want) <= 1e-9 * (np.abs(P) @ np.abs(X) @ np.abs(Mt).T + np.abs(c0)) + 1e-12),
              "fitted capture is exactly the model's capture of opacities times intensities", mechanism="prediction",
              max_dev=float(np.max(np.abs(Bp - want))))
    # descent (online trace checker over hook events)
    if steps:
        seq = [(f["iter"], f["phase"], f["loss"]) for f in steps if f["phase"] in ("X", "P")]
        worst = 0.0
        floor = 1e-4 * (float(np.linalg.norm(B - c0)) + float(np.sqrt(B.size)))   # SCS accuracy: eps_rel*|data| + eps_abs*sqrt(size), eps = 1e-4
        for a, b in zip(seq[:-1], seq[1:]):
            inc = b[2] - a[2]
            allow = 1e-3 * a[2] + floor
            worst = max(worst, inc / allow)
            c.require(inc <= allow, "the alternating optimisation never increases the fitting error",
                      mechanism="loss-increased", before=a, after=b)
            if inc > allow:
                break
        fin = [f for f in steps if f["phase"] == "X-final"]
        if fin and seq:
            lastP = [q for q in seq if q[1] == "P"][-1]
            c.require(fin[0]["loss"] <= lastP[2] + 1e-3 * lastP[2] + floor, "the final refit does not increase the error",
                      mechanism="loss-increased-final", last=lastP, final=fin[0]["loss"])
        c.margin("loss increase / allowance", worst, 1.0)
        c.note("loss_trace", [round(q[2], 6) for q in seq][:12])
    else:
        c.inconclusive("no decomp.step events observed (hook missing?)", abort=False)
    # last fitted factor is optimal given the other
    if not sub:
        Xo = x_opt_given_P(Mt, c0, lbv, ubv, mask, equal, P, B, np.clip(X, lo, ubv[None, :]))
        if Xo is None:
            c.inconclusive("X oracle failed", abort=False)
        else:
            l_got, l_opt = loss_fn(Mt, c0, X, P, B), loss_fn(Mt, c0, Xo, P, B)
            tol = 2e-3 * (1 + l_opt)
            c.margin("X-given-P loss gap / tol", l_got - l_opt, tol)
            c.require(l_got - l_opt <= tol, "intensities (fitted last) are globally optimal given the returned opacities",
                      mechanism="last-factor-X-suboptimal", loss=l_got, loss_opt=l_opt)
    else:
        G = X @ Mt.T                       # (L, m): capture of each layer
        gaps = []
        for r in range(N):
            po, eo = oracles.bvls(G.T, c0, np.full(L, inp["lbp"]), np.full(L, inp["ubp"]), B[r])
            if po is None:
                continue
            e = float(np.linalg.norm(G.T @ P[r] + c0 - B[r]))
            gaps.append(e - eo)
        if gaps:
            tol = 2e-3 * (1 + float(np.max(np.abs(B))))
            c.margin("P-given-X row gap / tol", float(np.max(gaps)), tol)
            c.require(np.max(gaps) <= tol, "opacities (fitted last after subsampling) are optimal for every sample given X",
                      mechanism="last-factor-P-suboptimal", worst=float(np.max(gaps)))
    # determinism: same seed, same result
    c.cell("determinism")
    out2 = gen.est_query(c, est, "fit_decomposition", B.copy(), attrs=("X", "P", "B"), registered=bool(inp.get("registered")),
                         _where="ReceptorEstimator.fit_decomposition (repeat)", **kw)   # same mode: same memory layout of the targets
    c.require(np.allclose(out2[0], X, rtol=0, atol=1e-10) and np.allclose(out2[1], P, rtol=0, atol=1e-10),
              "the same seed gives the same result", mechanism="nondeterministic",
              dX=float(np.max(np.abs(np.asarray(out2[0]) - X))), dP=float(np.max(np.abs(np.asarray(out2[1]) - P))))
    n_iter = len([f for f in steps if f["phase"] == "P"])
    binding = np.any(~maskb) or (equal and L > 1) or np.any(np.abs(X - ubv[None, :]) <= tx) or np.any(np.abs(X[maskb] - lo[maskb]) <= 1e-6)
    c.nontrivial(n_iter >= 2 and bool(binding))
    c.note("result", {"loss": loss_fn(Mt, c0, X, P, B), "iterations": n_iter, "row_sums": X.sum(axis=1)})


M.add("decomposition", gen_case, chk_case, weight=7, min_held=40)


def gen_rereg(rng, i):
    s = gen_case(rng, i)
    s["rereg_seed"] = int(rng.integers(0, 2 ** 31 - 1))
    return s


def chk_rereg(inp, c):
    """The decomposition uses the CURRENTLY registered system: decompose, change one registration (never a matrix K: the
    decomposition needs a non-negative model), decompose again and judge against the new values."""
    gen.rereg_check(c, dreye, inp, lambda est: est.fit_decomposition(inp["B"], n_layers=inp["L"], seed=inp["seed"], max_iter=3),
                    chk_case, matrix_ok=False)


M.add("decomposition_after_reregistration", gen_rereg, chk_rereg, weight=1, min_held=10)
