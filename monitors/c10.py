"""C10 — adaptive fit scales intensity and chroma uniformly and stays inside the gamut.

Events: (X, scales, B_pred) from ReceptorEstimator.fit_adaptive.  Oracle: the same polyhedron in
(X, s0, s1) solved with HiGHS: feasibility (raising is correct iff infeasible), LP optimum for the
'max' objective, variational-inequality LP for the 'unity' objective.
"""
import numpy as np
from scipy.optimize import linprog
from scipy.sparse import lil_matrix

from harness import runtime, oracles, gen
from harness.core import Monitor

dreye = None
cp = None


def _setup():
    global dreye, cp
    dreye = runtime.load_dreye()
    import cvxpy as cp_
    cp = cp_


M = Monitor(
    pid="C10",
    setup=_setup,
    title="Adaptive fit scales intensity and chroma uniformly and stays inside the gamut",
    rule=("cases: one bounded well-scaled system (2-4 receptors, 2-6 sources) and a target set of 1-50 samples spread from "
          "well inside to far outside the gamut (common dilation factor 0.2..3 about the gamut centre), neutral point default "
          "or given, objective unity/max, scale weights scalar or pair, deltas 1e-6..1e-3; default solver or Clarabel. "
          "non-trivial = some target outside the gamut (scales differ from 1) or N >= 2. distinct = hash of rounded inputs"),
    budget={"quick": (480, 70), "thorough": (16000, 1500)},
    anchors=[("dreye.api.optimize.lsq_linear", "lsq_linear_adaptive"), ("dreye.api.estimator", "ReceptorEstimator.fit_adaptive")],
    deciding=["lsq_linear.lsq_linear_adaptive", "estimator.ReceptorEstimator.fit_adaptive"],
    required_cells={"all": ["objective=unity", "objective=max", "neutral=default", "neutral=given", "all-inside", "some-outside",
                            "N=1", "N>=10", "scale_w=scalar", "scale_w=pair", "solver=default", "solver=clarabel"]},
    assumptions=["constraints asserted within delta + 1e-6*(1+|sum B|) (solver accuracy)",
                 "'max': w.s >= LP optimum - 1e-4*(1+|opt|); 'unity': variational inequality gap <= 1e-4*(1+|g.s*|)+1e-7"],
)


def build_lp(Mt, c0, lbv, ubv, B, neutral, d1, dr):
    """Rows of A_ub z <= b_ub for z = [x_1..x_N, s0, s1]."""
    N, m = B.shape
    n = Mt.shape[1]
    nv = N * n + 2
    S = B.sum(axis=1)
    nu = neutral[None, :] / neutral.sum() * S[:, None]
    rho = B - nu
    rows = 2 * N * (1 + m)
    A = lil_matrix((rows, nv))
    b = np.zeros(rows)
    k = 0
    colsum = Mt.sum(axis=0)
    for r in range(N):
        sl = slice(r * n, (r + 1) * n)
        # |1.(Mt x + c) - s0 S_r| <= d1
        A[k, sl] = colsum; A[k, nv - 2] = -S[r]; b[k] = d1 - c0.sum(); k += 1
        A[k, sl] = -colsum; A[k, nv - 2] = S[r]; b[k] = d1 + c0.sum(); k += 1
        for i in range(m):
            A[k, sl] = Mt[i]; A[k, nv - 2] = -nu[r, i]; A[k, nv - 1] = -rho[r, i]; b[k] = dr - c0[i]; k += 1
            A[k, sl] = -Mt[i]; A[k, nv - 2] = nu[r, i]; A[k, nv - 1] = rho[r, i]; b[k] = dr + c0[i]; k += 1
    bounds = [(lbv[j], ubv[j]) for _ in range(N) for j in range(n)] + [(0, None), (0, None)]
    return A.tocsr(), b, bounds, nv


def gen_case(rng, i):
    m = int(rng.integers(2, 5))
    n = int(rng.integers(2, 7))
    s = gen.make_system(rng, m=m, n=n, ubkind="finite")
    Mt, c0, lbv, ubv = gen.sys_arrays(s)
    N = [1, 1, 2, 3, 5, 10, 20, 50][rng.integers(8)]
    X = gen.interior_x(rng, lbv, ubv, N, margin=0.1)
    Bin = X @ Mt.T + c0
    cen = Mt @ (0.5 * (lbv + ubv)) + c0
    gamma = float([0.3, 0.6, 0.9, 1.0, 1.3, 2.0, 3.0][rng.integers(7)])
    B = cen + gamma * (Bin - cen)
    if rng.integers(4) == 0:
        B = B * float(rng.uniform(0.5, 2.0))            # intensity mismatch as well
    B = np.abs(B) + 1e-3
    if i % 6 == 1:
        B = np.maximum(np.round(B), 1.0)                # integer-valued targets (photon counts): handed over as int64
    given = bool(rng.integers(2))
    s.update({"B": B, "neutral": (rng.uniform(0.5, 1.5, m) if given else None),
              "objective": ["unity", "max"][rng.integers(2)],
              "scale_w": (float(rng.uniform(0.5, 2)) if rng.integers(2) else rng.uniform(0.3, 3, 2)),
              "d1": float(10 ** rng.uniform(-6, -3)), "dr": float(10 ** rng.uniform(-6, -3)),
              "solver": ["default", "clarabel"][rng.integers(2)], "registered": bool(rng.integers(5) == 0)})
    return s


def chk_case(inp, c):
    ok, info = gen.regime_report(inp["A"], inp["lb"], inp["ub"], inp["K"], inp["baseline"], inp["B"])
    if not ok:
        c.unmet("outside the well-scaled regime")
    Mt, c0, lbv, ubv = gen.sys_arrays(inp)
    m, n = Mt.shape
    B = inp["B"]
    N = len(B)
    neutral = np.ones(m) if inp["neutral"] is None else inp["neutral"]
    d1, dr, obj = inp["d1"], inp["dr"], inp["objective"]
    w = np.broadcast_to(np.atleast_1d(inp["scale_w"]), (2,)).astype(float)
    c.cell(*gen.sys_cells(inp), "objective=" + obj, "neutral=" + ("default" if inp["neutral"] is None else "given"),
           "N=1" if N == 1 else ("N>=10" if N >= 10 else "N=2-9"), "scale_w=" + ("scalar" if np.ndim(inp["scale_w"]) == 0 else "pair"),
           "solver=" + inp["solver"])
    Z = oracles.Zonotope(Mt, c0, lbv, ubv)
    if Z.full_dim:
        all_in = bool(np.all(Z.depth(B) / Z.extent >= 1e-4))
    else:   # flat gamut (fewer sources than receptors): nothing is strictly inside; use LP reproducibility
        res = [oracles.lp_feasible_residual(Mt, c0, lbv, ubv, b)[0] for b in B]
        all_in = all(t is not None and t <= 1e-10 for t in res)
        c.cell("flat-gamut")
    c.cell("all-inside" if all_in else "some-outside")
    A_ub, b_ub, bounds, nv = build_lp(Mt, c0, lbv, ubv, B, neutral, d1, dr)
    feas = linprog(np.zeros(nv), A_ub=A_ub, b_ub=b_ub, bounds=bounds, method="highs")
    A2, b2, _, _ = build_lp(Mt, c0, lbv, ubv, B, neutral, 0.5 * d1, 0.5 * dr)
    feas_margin = linprog(np.zeros(nv), A_ub=A2, b_ub=b2, bounds=bounds, method="highs")
    # 'two positive scales': when the targets cannot be scaled into the gamut at all (only vanishing scales are feasible,
    # e.g. targets outside the span of a flat gamut) there is no meaningful answer; such cases are outside the property
    if feas.status == 0:
        smax = []
        for kk in (2, 1):
            cost = np.zeros(nv)
            cost[-kk] = -1.0
            rr = linprog(cost, A_ub=A_ub, b_ub=b_ub, bounds=bounds, method="highs")
            smax.append(-rr.fun if rr.status == 0 else np.inf)
        if min(smax) < 1e-2:
            c.cell("unmet:only-vanishing-scales")
            c.unmet("only vanishing scales are feasible (targets cannot be scaled into the gamut)")
        if obj == "max" and not np.isfinite(max(smax)):
            # e.g. exactly achromatic targets (zero offset from the neutral direction): the chroma scale is free, the
            # weighted sum has no maximum and there is nothing the 'max' objective could return
            c.cell("unmet:max-unbounded")
            c.unmet("a scale is unbounded over the feasible set: the 'max' objective has no optimum")
    est = gen.live_or_new(c, dreye, inp)
    del c.events[:]          # only the events of the judged call
    kw = dict(solver=cp.CLARABEL) if inp["solver"] == "clarabel" else {}
    okc, out = gen.est_query(c, est, "fit_adaptive", B.copy(), attrs=("X", "scales", "B"), registered=bool(inp.get("registered")),
                             use_try=True, neutral_point=(None if inp["neutral"] is None else inp["neutral"].copy()),
                             delta_norm1=d1, delta_radius=dr, adaptive_objective=obj, scale_w=inp["scale_w"], **kw)
    if not okc:
        exc = out
        if feas.status == 2:            # infeasible polyhedron: raising is the correct answer
            c.cell("raise-ok:infeasible")
            c.nontrivial()
            c.note("raised_correctly", str(exc)[:80])
            return
        if feas_margin.status != 0:
            c.inconclusive("polyhedron at the edge of feasibility")
        c.fail(f"fit_adaptive raised {type(exc).__name__}: {str(exc)[:140]} although a feasible (X, scales) exists",
               mechanism=f"raise:{type(exc).__name__}:feasible" + ("" if Z.full_dim else ":flat-gamut"), solver=inp["solver"])
    if not c.require(isinstance(out, tuple) and len(out) == 3, "returns (X, scales, B_pred)", mechanism="return-type"):
        return
    X, sc, Bp = np.asarray(out[0], float), np.asarray(out[1], float), np.asarray(out[2], float)
    if not c.require(X.shape == (N, n) and sc.shape == (2,) and Bp.shape == (N, m) and np.all(np.isfinite(X)) and
                     np.all(np.isfinite(sc)), "finite X (N,n), scales (2,), B_pred (N,m)", mechanism="shape",
                     X=list(X.shape), scales=list(sc.shape)):
        return
    S = B.sum(axis=1)
    tol = 1e-6 * (1 + float(np.max(np.abs(S))))
    sts = [f.get("status") for k, f in c.events if k == "solve.status" and f.get("where") == "lsq_linear_adaptive"]
    status = sts[-1] if sts else None
    c.cell("status=" + str(status))

    def mech(base, excess=1.0):
        """Status-aware key: with a non-optimal solver status the status is the mechanism (details dropped);
        'optimal_inaccurate' explains deviations up to 4x the tolerance only, larger ones are keyed ':gross'."""
        if status in (None, "optimal"):
            return base
        return f"{base.split(':')[0]}@{status}" + (":gross" if (status == "optimal_inaccurate" and excess > 4.0) else "")
    def flat(base, excess):
        """Flat gamuts (fewer sources than receptors): the conic problem is degenerate and the solver's 'optimal' scales
        are accurate to ~1e-3 only; a shortfall of up to 4x the tolerance is keyed ':flat-gamut' (a listed finding),
        anything larger ':flat-gamut:gross' (never listed)."""
        if Z.full_dim:
            return base
        return base + ":flat-gamut" + (":gross" if excess > 4.0 else "")
    zero_vertex = np.all(sc >= 0) and np.any(sc == 0)
    c.require(np.all(sc > 0), "both scales are positive",
              mechanism=mech("scales-nonpositive" + ((":%s-objective-at-zero" % obj) if zero_vertex else "")), scales=sc)
    rngx = ubv - lbv
    viol = np.maximum(lbv - X, X - ubv)
    c.require(np.all(viol <= 1e-5 * rngx), "intensities within the bounds", mechanism=mech("bounds", float(np.max(viol / (1e-5 * rngx)))),
              worst=float(np.max(viol)))
    pred = X @ Mt.T + c0
    c.require(np.all(np.abs(Bp - pred) <= 1e-10 * (np.abs(X) @ np.abs(Mt).T + np.abs(c0)) + 1e-12),
              "predicted capture is the model's capture of the returned intensities", mechanism="prediction")
    nu = neutral[None, :] / neutral.sum() * S[:, None]
    e1 = np.abs(pred.sum(axis=1) - sc[0] * S)
    c.margin("total-capture constraint / (delta+tol)", float(np.max(e1)), d1 + tol)
    c.require(np.all(e1 <= d1 + tol), "fitted total capture equals the target's total times the first scale (within delta_norm1)",
              mechanism=mech("total-not-scaled", float(np.max(e1)) / (d1 + tol)), worst=float(np.max(e1)), delta=d1, scales=sc)
    e2 = np.abs((pred - sc[0] * nu) - sc[1] * (B - nu))
    c.margin("radial constraint / (delta+tol)", float(np.max(e2)), dr + tol)
    c.require(np.all(e2 <= dr + tol), "fitted offset from the neutral direction equals the target's offset times the second scale",
              mechanism=mech("offset-not-scaled", float(np.max(e2)) / (dr + tol)), worst=float(np.max(e2)), delta=dr, scales=sc)
    if feas.status != 0:
        c.inconclusive("oracle LP reports no feasible point although a result was returned", abort=False)
    elif obj == "max":
        cost = np.zeros(nv)
        cost[-2:] = -w
        r = linprog(cost, A_ub=A_ub, b_ub=b_ub, bounds=bounds, method="highs")
        if r.status != 0:
            c.inconclusive("LP optimum not found", abort=False)
        else:
            opt = float(w @ r.x[-2:])
            got = float(w @ sc)
            c.margin("max objective shortfall / tol", opt - got, 1e-4 * (1 + abs(opt)))
            c.require(got >= opt - 1e-4 * (1 + abs(opt)), "'max': no feasible pair of scales has a larger weighted sum",
                      mechanism=mech(flat("max-suboptimal", (opt - got) / (1e-4 * (1 + abs(opt))))), got=got, lp_opt=opt,
                      scales=sc, lp_scales=r.x[-2:])
    else:
        g = 2 * w ** 2 * (sc - 1)
        cost = np.zeros(nv)
        cost[-2:] = g
        r = linprog(cost, A_ub=A_ub, b_ub=b_ub, bounds=bounds, method="highs")
        if r.status != 0:
            c.inconclusive("VI LP failed", abort=False)
        else:
            gap = float(g @ sc - g @ r.x[-2:])
            tolv = 1e-4 * (1 + abs(float(g @ sc))) + 1e-7
            c.margin("unity variational gap / tol", gap, tolv)
            c.require(gap <= tolv, "'unity': the scales are the feasible pair closest to (1, 1) (weighted)",
                      mechanism=mech(flat("unity-suboptimal", gap / tolv)), gap=gap, scales=sc, lp_scales=r.x[-2:])
        if all_in:
            c.require(np.all(np.abs(sc - 1) <= 1e-3), "'unity': scales are (1, 1) when all targets are in gamut",
                      mechanism=mech("unity-not-one-in-gamut"), scales=sc)
    c.nontrivial((not all_in) or N >= 2)
    c.note("scales", sc)
    c.note("setup", {"N": N, "objective": obj, "scale_w": inp["scale_w"], "all_inside": all_in})


M.add("adaptive", gen_case, chk_case, weight=6, min_held=100)


def gen_rereg(rng, i):
    s = gen_case(rng, i)
    s["rereg_seed"] = int(rng.integers(0, 2 ** 31 - 1))
    return s


def chk_rereg(inp, c):
    """The adaptive fit uses the CURRENTLY registered system: fit, change one registration on the same estimator, fit again."""
    gen.rereg_check(c, dreye, inp, lambda est: est.fit_adaptive(inp["B"], solver=cp.CLARABEL), chk_case)


M.add("adaptive_after_reregistration", gen_rereg, chk_rereg, weight=1, min_held=15)
