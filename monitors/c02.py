"""C02 — a registered system is the exact linear model of the receptor responses.

Reference-model monitor: the estimator's captures are compared with the integral of the
*physically mixed spectrum* sum_k x_k source_k (spectrum space; the matrix A is never used by
the oracle) and with the closed form K (Q + baseline).
"""
import numpy as np

from harness import runtime, oracles, gen
from harness.core import Monitor

REL = 1e-10
dreye = None


def _setup():
    global dreye
    dreye = runtime.load_dreye()


M = Monitor(
    pid="C02",
    setup=_setup,
    decoy=True,
    title="A registered system is the exact linear model of the receptor responses",
    rule=("cases: random non-negative filter sets (2-5 receptors) and source sets (1-8 sources) on scalar-step / uniform / "
          "non-uniform domains, K in {none, scalar, vector, matrix}, baseline in {0, scalar, vector}, intensity vectors of "
          "rank 1, 2 and 3. non-trivial = n_sources>=2 or matrix K or batched X. distinct = hash of rounded inputs"),
    budget={"quick": (2400, 60), "thorough": (120000, 900)},
    anchors=[("dreye.api.estimator", "ReceptorEstimator.register_system"),
             ("dreye.api.estimator", "ReceptorEstimator._relative_capture"),
             ("dreye.api.estimator", "ReceptorEstimator.system_capture"),
             ("dreye.api.estimator", "ReceptorEstimator.system_relative_capture"),
             ("dreye.api.estimator", "ReceptorEstimator.relative_capture"),
             ("dreye.api.estimator", "ReceptorEstimator.register_background_adaptation"),
             ("dreye.api.estimator", "ReceptorEstimator.register_system_adaptation"),
             ("dreye.api.utils", "apply_linear_transform")],
    deciding=["estimator.ReceptorEstimator.register_system", "estimator.ReceptorEstimator._relative_capture",
              "estimator.ReceptorEstimator.register_background_adaptation",
              "estimator.ReceptorEstimator.register_system_adaptation"],
    required_cells={"all": ["K=none", "K=scalar", "K=vector", "K=matrix", "baseline=zero", "baseline=scalar",
                            "baseline=vector", "domain=scalar", "domain=uniform", "domain=nonuniform",
                            "Xrank=1", "Xrank=2", "Xrank=3", "adapt=background", "adapt=system", "units=small", "units=large"]},
    assumptions=["oracle integrates with explicit trapezoid weights (C01 oracle)",
                 "tolerance 1e-10 relative to the absolute-value magnitude of each sum"],
)


def gen_case(rng, i):
    m = int(rng.integers(2, 6))
    n = int(rng.integers(1, 9))
    dkind, dom = gen.make_domain(rng)
    nd = int(rng.integers(20, 90)) if np.ndim(dom) == 0 else len(dom)
    filters, sources = gen.make_spectra(rng, m, n, dom, nd)
    # physical units are arbitrary: a third of the cases use very small / large intensity units
    unit = float(10 ** rng.uniform(-11, 4)) if i % 3 == 0 else 1.0
    sources = sources * unit
    kk = gen.K_KINDS[rng.integers(4)]
    bk = gen.BASE_KINDS[rng.integers(3)]
    K = gen.make_K(rng, m, kk)
    base = gen.make_baseline(rng, m, bk, 1.0)
    if base is not None and unit != 1.0:
        base = base * unit
    xr = int(rng.integers(1, 4))
    xshape = {1: (n,), 2: (int(rng.integers(1, 6)), n), 3: (int(rng.integers(1, 3)), int(rng.integers(1, 4)), n)}[xr]
    X = rng.uniform(0, 3, xshape) * (rng.random(xshape) < 0.85)
    return {"filters": filters, "sources": sources, "domain": dom, "dkind": dkind, "K": K, "kkind": kk,
            "baseline": base, "basekind": bk, "X": X, "ctor": bool(rng.integers(2)),
            "signals": np.abs(rng.normal(0, 1, (int(rng.integers(1, 5)), nd))),
            "background": (np.abs(rng.normal(0.5, 0.3, nd)) + 0.05) * unit, "unit": unit,
            "x_adapt": rng.uniform(0.1, 2, n), "add_baseline_kw": bool(rng.integers(2)),
            "lb": None if rng.integers(2) else np.zeros(n), "ub": None if rng.integers(2) else rng.uniform(1, 5, n),
            # state and arguments that must not change any answer: a registered filter uncertainty; the spectra's own
            # domain passed explicitly (equal to the filters' domain)
            "with_uncertainty": bool(rng.integers(3) == 0), "explicit_domain": bool(rng.integers(3) == 0)}


def _K_apply(K, V, m):
    """K(V) for V (..., m); also magnitude |K|(|V|)."""
    if K is None:
        return V, np.abs(V)
    K = np.asarray(K, dtype=float)
    if K.ndim <= 1:
        return V * K, np.abs(V) * np.abs(K)
    return V @ K.T, np.abs(V) @ np.abs(K).T


def chk_case(inp, c):
    f, s, dom = inp["filters"], inp["sources"], inp["domain"]
    m, nd = f.shape
    n = s.shape[0]
    K, base = inp["K"], inp["baseline"]
    c.cell(f"m={m}", f"n={n}", "K=" + inp["kkind"], "baseline=" + inp["basekind"], "domain=" + inp["dkind"],
           f"Xrank={inp['X'].ndim}")
    if inp.get("unit", 1.0) != 1.0:
        c.cell("units=small" if inp["unit"] < 1e-6 else ("units=large" if inp["unit"] > 1e2 else "units=scaled"))
    dom_arg = float(dom) if np.ndim(dom) == 0 else dom.copy()
    kw = {}
    if K is not None:
        kw["K"] = K.copy() if isinstance(K, np.ndarray) else K
    if base is not None:
        kw["baseline"] = base.copy() if isinstance(base, np.ndarray) else base
    ukw = {}
    if inp.get("with_uncertainty"):
        c.cell("filters_uncertainty=given")
        ukw["filters_uncertainty"] = 0.1 * f + 0.01
    dkw = {}
    if inp.get("explicit_domain") and np.ndim(dom) == 1:
        c.cell("spectra-domain=explicit")
        dkw["domain"] = dom.copy()
    if inp["ctor"]:
        c.cell("register=ctor")
        est = c.call(dreye.ReceptorEstimator, f.copy(), domain=dom_arg, sources=s.copy(), lb=inp["lb"], ub=inp["ub"],
                     _where="ReceptorEstimator(sources=)", **kw, **ukw)
    else:
        c.cell("register=method")
        est = c.call(dreye.ReceptorEstimator, f.copy(), domain=dom_arg, _where="ReceptorEstimator", **ukw)
        if K is not None:
            c.call(est.register_adaptation, kw["K"])
        if base is not None:
            c.call(est.register_baseline, kw["baseline"])
        c.call(est.register_system, s.copy(), lb=inp["lb"], ub=inp["ub"], _where="register_system", **dkw)

    w = oracles.domain_weights(dom, nd, True)
    bvec = np.zeros(m) if base is None else np.broadcast_to(np.asarray(base, float), (m,))

    # (1) A is the capture of every source
    A = np.asarray(est.A)
    Aor, Amag = oracles.capture_oracle(f, s, w)        # (n, m)
    c.require(A.shape == (m, n), "A has shape (n_filters, n_sources)", mechanism="A-shape", got=list(A.shape))
    if A.shape != (m, n):
        return
    c.require(np.all(np.abs(A - Aor.T) <= REL * Amag.T + 1e-300),
              "A[:, k] is the capture of source k", mechanism="A-value",
              max_dev=float(np.max(np.abs(A - Aor.T))))

    # (2) capture from intensities == capture of the mixed spectrum
    X = inp["X"]
    mixed = X @ s                                      # (..., nd) physically mixed spectrum
    flat = mixed.reshape(-1, nd)
    Qor, _ = oracles.capture_oracle(f, flat, w)        # (N, m)
    Qor = Qor.reshape(X.shape[:-1] + (m,))
    Qmag = (np.abs(X) @ Amag)                          # sum_k |x_k| int |s_k f_i|
    Q = np.asarray(c.call(est.system_capture, X.copy(), _where="system_capture"))
    c.require(Q.shape == Qor.shape, "system_capture shape (..., n_filters)", mechanism="syscap-shape",
              got=list(Q.shape), want=list(Qor.shape))
    if Q.shape != Qor.shape:
        return
    dev = np.abs(Q - Qor)
    c.margin("system_capture vs mixed spectrum", float(np.max(dev / (REL * Qmag + 1e-300))), 1.0)
    c.require(np.all(dev <= REL * Qmag + 1e-300),
              "capture predicted from intensities equals the capture of the mixed spectrum sum_k x_k source_k",
              mechanism="syscap-value", max_dev=float(np.max(dev)))

    # (3) relative capture = K (Q + baseline)
    Ror, Rmag = _K_apply(K, Qor + bvec, m)
    _, Rmag = _K_apply(K, Qmag + np.abs(bvec), m)
    R = np.asarray(c.call(est.system_relative_capture, X.copy(), _where="system_relative_capture"))
    c.require(R.shape == Ror.shape, "system_relative_capture shape", mechanism="sysrel-shape",
              got=list(R.shape), want=list(Ror.shape))
    if R.shape == Ror.shape:
        dev = np.abs(R - Ror)
        c.margin("relative capture vs K(Q+b)", float(np.max(dev / (REL * Rmag + 1e-300))), 1.0)
        c.require(np.all(dev <= REL * Rmag + 1e-300), "system relative capture equals K (Q + baseline)",
                  mechanism="sysrel-value", max_dev=float(np.max(dev)), K_kind=inp["kkind"])
    sig = inp["signals"][:, :nd] if inp["signals"].shape[1] >= nd else np.abs(np.resize(inp["signals"], (2, nd)))
    Sor, Smag = oracles.capture_oracle(f, sig, w)
    Rs_or, _ = _K_apply(K, Sor + bvec, m)
    _, Rs_mag = _K_apply(K, Smag + np.abs(bvec), m)
    Rs = np.asarray(c.call(est.relative_capture, sig.copy(), _where="relative_capture", **dkw))
    c.require(Rs.shape == Rs_or.shape and np.all(np.abs(Rs - Rs_or) <= REL * Rs_mag + 1e-300),
              "relative capture of a spectrum equals K (Q + baseline)", mechanism="rel-value",
              got_shape=list(Rs.shape))
    Qs = np.asarray(c.call(est.capture, sig.copy(), _where="capture", **dkw))
    c.require(Qs.shape == Sor.shape and np.all(np.abs(Qs - Sor) <= REL * Smag + 1e-300),
              "absolute capture of a spectrum is the trapezoid integral", mechanism="cap-value")
    c.note("A_first_col", {"got": A[:, 0], "oracle": Aor[0]})
    c.note("relative_capture_first", {"got": np.ravel(R)[:m], "oracle": np.ravel(Ror)[:m]})

    # (4) adapting to a background makes its relative capture 1
    bg = inp["background"][:nd] if inp["background"].size >= nd else np.resize(inp["background"], nd)
    c.cell("adapt=background")
    akw = {"add_baseline": True} if inp["add_baseline_kw"] else {}
    c.call(est.register_background_adaptation, bg.copy(), _where="register_background_adaptation", **akw, **dkw)
    r1 = np.asarray(c.call(est.relative_capture, bg.copy(), _where="relative_capture(background)"))
    c.require(r1.shape == (m,) and np.all(np.abs(r1 - 1) <= 1e-9),
              "after adapting to a background spectrum its relative capture is 1 for every receptor",
              mechanism="adapt-background", got=r1)
    Kor = 1.0 / (np.sum(f * bg * w, axis=-1) + bvec)
    c.require(np.shape(est.K) == (m,) and np.all(np.abs(np.asarray(est.K) - Kor) <= 1e-10 * np.abs(Kor)),
              "K := 1 / (Q_background + baseline)", mechanism="adapt-K-value", got=np.asarray(est.K), want=Kor)
    c.cell("adapt=system")
    xa = inp["x_adapt"]
    c.call(est.register_system_adaptation, xa.copy(), _where="register_system_adaptation", **akw)
    r2 = np.asarray(c.call(est.system_relative_capture, xa.copy(), _where="system_relative_capture(adapt x)"))
    c.require(r2.shape == (m,) and np.all(np.abs(r2 - 1) <= 1e-9),
              "after adapting to an intensity vector its relative capture is 1 for every receptor",
              mechanism="adapt-system", got=r2)
    # the adapted model still is K(Q+b) for other inputs
    Kv = 1.0 / (xa @ Aor + bvec)
    R3 = np.asarray(c.call(est.system_relative_capture, X.copy()))
    want3 = (Qor + bvec) * Kv
    c.require(R3.shape == want3.shape and np.all(np.abs(R3 - want3) <= 1e-9 * (Qmag + np.abs(bvec)) * np.abs(Kv) + 1e-300),
              "after adaptation relative capture is K_new (Q + baseline)", mechanism="adapt-then-relative")
    c.nontrivial(n >= 2 or inp["kkind"] == "matrix" or X.ndim >= 2)


M.add("linear_model", gen_case, chk_case, weight=3, min_held=200)


# ------------------------------------------------------------------ clause: the model after a sequence of registrations

def gen_seq(rng, i):
    inp = gen_case(rng, i)
    inp["ops"] = [["adaptation", "baseline", "background", "system_adaptation", "query"][rng.integers(5)]
                  for _ in range(int(rng.integers(2, 6)))]
    inp["seq_seed"] = int(rng.integers(0, 2 ** 31 - 1))
    return inp


def chk_seq(inp, c):
    """Captures are K (Q + baseline) for the CURRENTLY registered K and baseline after any sequence of registrations and
    queries on one estimator (K, baseline and A are tracked by an independent model)."""
    f, s, dom = inp["filters"], inp["sources"], inp["domain"]
    m, nd = f.shape
    n = s.shape[0]
    rr = np.random.default_rng(inp["seq_seed"])
    dom_arg = float(dom) if np.ndim(dom) == 0 else dom.copy()
    est = c.call(dreye.ReceptorEstimator, f.copy(), domain=dom_arg, sources=s.copy(), _where="ReceptorEstimator(sources=)")
    w = oracles.domain_weights(dom, nd, True)
    Aor, Amag = oracles.capture_oracle(f, s, w)            # (n, m)
    K, base = np.ones(m), np.zeros(m)
    X = inp["X"]
    sig = np.abs(np.resize(inp["signals"], (2, nd)))

    def verify(tag):
        Q = X @ Aor
        Qm = np.abs(X) @ Amag
        want, _ = _K_apply(K, Q + base, m)
        _, mag = _K_apply(K, Qm + np.abs(base), m)
        got = np.asarray(c.call(est.system_relative_capture, X.copy(), _where="system_relative_capture"))
        c.require(got.shape == want.shape and np.all(np.abs(got - want) <= 1e-9 * mag + 1e-300),
                  "system relative capture equals K (Q + baseline) for the currently registered K and baseline",
                  mechanism="sequence:sysrel-value", after=tag)
        So, Sm = oracles.capture_oracle(f, sig, w)
        want2, _ = _K_apply(K, So + base, m)
        _, mag2 = _K_apply(K, Sm + np.abs(base), m)
        got2 = np.asarray(c.call(est.relative_capture, sig.copy(), _where="relative_capture"))
        c.require(got2.shape == want2.shape and np.all(np.abs(got2 - want2) <= 1e-9 * mag2 + 1e-300),
                  "relative capture of a spectrum equals K (Q + baseline) for the currently registered K and baseline",
                  mechanism="sequence:rel-value", after=tag)
    verify("registration")
    for op in inp["ops"]:
        c.cell("seq-op=" + op)
        if op == "adaptation":
            kk = ["scalar", "vector", "matrix"][rr.integers(3)]
            Kn = gen.make_K(rr, m, kk)
            c.call(est.register_adaptation, Kn.copy() if isinstance(Kn, np.ndarray) else Kn, _where="register_adaptation")
            K = np.asarray(Kn, float) if np.ndim(Kn) else np.full(m, float(Kn))
        elif op == "baseline":
            base = rr.uniform(0, 0.3, m) * float(np.mean(np.abs(Aor)) * n + 1e-12)
            c.call(est.register_baseline, base.copy(), _where="register_baseline")
        elif op == "background":
            bg = np.abs(rr.normal(0.5, 0.3, nd)) + 0.05
            bg = bg * float(inp.get("unit", 1.0))
            # documented options: add_baseline (default True), add (default False: replace; True: add to the current K)
            akw = {}
            if rr.integers(3) == 0:
                akw["add_baseline"] = bool(rr.integers(2))
            if np.ndim(K) == 1 and rr.integers(3) == 0:
                akw["add"] = True
            for kk_, vv_ in akw.items():
                c.cell(f"background:{kk_}={vv_}")
            c.decoy = not akw.get("add")          # an accumulating registration is not history-neutral: no decoy call before it
            c.call(est.register_background_adaptation, bg.copy(), _where="register_background_adaptation", **akw)
            c.decoy = True
            Kn = 1.0 / (np.sum(f * bg * w, axis=-1) + (base if akw.get("add_baseline", True) else 0.0))
            K = (K + Kn) if akw.get("add") else Kn
        elif op == "system_adaptation":
            xa = rr.uniform(0.1, 2, n)
            akw = {}
            if rr.integers(3) == 0:
                akw["add_baseline"] = bool(rr.integers(2))
            if np.ndim(K) == 1 and rr.integers(3) == 0:
                akw["add"] = True
            for kk_, vv_ in akw.items():
                c.cell(f"system_adaptation:{kk_}={vv_}")
            c.decoy = not akw.get("add")
            c.call(est.register_system_adaptation, xa.copy(), _where="register_system_adaptation", **akw)
            c.decoy = True
            Kn = 1.0 / (xa @ Aor + (base if akw.get("add_baseline", True) else 0.0))
            K = (K + Kn) if akw.get("add") else Kn
        verify(op)
    c.nontrivial(len(inp["ops"]) >= 2)
    c.note("ops", inp["ops"])


M.add("registration_sequences", gen_seq, chk_seq, weight=1, min_held=60)
