"""C12 — gamut-corrective scalings keep hue and ratios and land in the chromatic gamut.

Events: every array returned by ReceptorEstimator.gamut_l1_scaling / gamut_dist_scaling for generated
and hostile target sets on generated systems.

Oracles (numpy / scipy only; no dreye code, no cvxpy):
* intensity scaling : with (Mt, c_eff) the effective model (relative: K.A, K.baseline; absolute: A, 0) the algebraic
                      relation out - c_eff = f (B - c_eff) for ONE f > 0, and max(out - c_eff) = min_i max_j Mt_ij ub_j;
* chromatic scaling : plain chromaticities chi(b) = b / sum(b) (the code works in barycentric cartesian coordinates,
                      an affine image of them, so the same relations hold): totals, hue direction from
                      chi(neutral), one common contraction alpha in (0, 1], membership of every chi(out) in the
                      convex hull of the corner chromaticities (oracle-side corner enumeration; half-space depth
                      from qhull facets / interval for dichromats, and the projective HiGHS LP), "unchanged when
                      already inside".  The largest admissible common factor alpha* (ray / facet intersection)
                      is computed and RECORDED (tightness is not part of the property).
"""
import numpy as np

from harness import runtime, oracles, gen
from harness.core import Monitor

dreye = None


def _setup():
    global dreye
    dreye = runtime.load_dreye()


# ------------------------------------------------------------------ tolerances (see final report for measured head-room)
TOL_F_SPREAD = 1e-10      # relative spread of the entry-wise intensity factor
TOL_L1_RESID = 1e-12      # |out - c - f (B - c)| relative to the size of the data
TOL_AMAX = 1e-10          # relative, largest capture vs smallest single-source maximum
TOL_TOTAL = 1e-10         # relative, row totals
TOL_HUE_RESID = 1e-10     # chromaticity units: distance of chi(out) from the ray centre -> chi(B)
TOL_COS = 1e-9            # 1 - cosine of hue directions
TOL_ALPHA_SPREAD = 1e-8   # relative spread of the per-row saturation factor
TOL_ALPHA_GT1 = 1e-9      # alpha <= 1 + this
TOL_MEMBER = 1e-7         # chromaticity units: LP residual / half-space depth of chi(out)
TOL_UNCHANGED = 1e-12     # relative to the largest row total
INSIDE = 1e-6             # chromatic depth (relative to the gamut extent) that counts as 'inside with margin'
SAT_MIN = 1e-6            # saturation below which a row is treated as 'neutral direction'
NEUTRAL_MARGIN = 1e-6     # the neutral point must be at least this deep (precondition)

DIST_MODES = ["mixed", "inside", "inside+zero", "needs", "needs+zero", "saturated", "degenerate", "single"]
INSIDE_MODES = ["inside", "inside+zero", "degenerate", "inside"]

M = Monitor(
    pid="C12",
    setup=_setup,
    title="Gamut-corrective scalings keep hue and ratios and land in the chromatic gamut",
    rule=("cases: one system (2-4 receptors, m..m+3 sources, finite ub, lb zero / positive, K none / scalar / vector / "
          "'adapted' vector 1/(A x0 + baseline) / a few matrices, baseline zero / scalar / vector), relative or absolute "
          "capture, default or explicit neutral point, and one target set of 1..30 non-negative rows built on the oracle "
          "side: chromaticities inside the chromatic gamut, outside it, on / next to the rim (1e-3..1e-8), gamut corner "
          "captures, near or on simplex corners and edges, rows in the neutral direction, all-zero rows, integer dtype, "
          "C / Fortran / strided layout, totals over 5 decades.  intensity scaling: non-trivial = non-zero baseline or "
          "non-default K or lb > 0.  chromatic scaling: non-trivial = at least one row with non-zero saturation and "
          "(scaling needed, or zero rows, or explicit neutral point, or absolute capture, or dichromat).  distinct = hash "
          "of rounded inputs"),
    budget={"quick": (10000, 45), "thorough": (400000, 600)},
    anchors=[("dreye.api.estimator", "ReceptorEstimator.hull_l1_scaling"),
             ("dreye.api.estimator", "ReceptorEstimator.hull_dist_scaling"),
             ("dreye.api.project", "alpha_for_B_with_P"),
             ("dreye.api.estimator", "ReceptorEstimator.in_hull")],
    deciding=["estimator.ReceptorEstimator.hull_l1_scaling", "estimator.ReceptorEstimator.hull_dist_scaling"],
    required_cells={"all": ["l1:m=2", "l1:m=3", "l1:m=4", "l1:relative=False", "l1:relative=True", "l1:lb=pos", "l1:lb=zero",
                            "l1:baseline=vector", "l1:K=vector", "l1:K=matrix",
                            "m=2", "m=3", "m=4", "relative=False", "relative=True", "already-inside", "needs-scaling",
                            "zero-rows", "no-zero-rows", "neutral=explicit", "neutral=default", "K=adapted", "K=none",
                            "baseline=vector", "baseline=zero", "lb=zero", "lb=pos", "rim-band", "zero-saturation-rows",
                            "m=2:needs-scaling", "m=3:needs-scaling", "m=4:needs-scaling",
                            "m=2:already-inside", "m=3:already-inside", "m=4:already-inside"]},
    assumptions=["chromatic gamut = convex hull of the chromaticities of the non-zero corner captures (oracle-side "
                 "enumeration of the 2^n corners); its facets from qhull, membership re-decided by the projective HiGHS LP",
                 "'inside with margin' = half-space depth >= 1e-6 of the gamut extent; rows within 1e-6 of the rim are "
                 "indeterminate for 'unchanged' (only hue / total / common factor / containment are asserted)",
                 "precondition recomputed by the oracle: corner captures >= 0, neutral chromaticity >= 1e-6 deep and "
                 "LP residual <= 1e-9, targets >= 0; otherwise the case is 'unmet'",
                 "tightness of the common factor (some row on the rim) is recorded, not asserted"],
)


# ------------------------------------------------------------------ oracle side: effective model, chromatic gamut

def _eff(s, rel):
    """(Mt, c_eff, lbv, ubv) of the model the targets are expressed in."""
    if rel:
        Mt, c0 = oracles.transform(s["A"], s["K"], s["baseline"])
    else:
        Mt = np.atleast_2d(np.asarray(s["A"], dtype=float)).copy()
        c0 = np.zeros(Mt.shape[0])
    lbv, ubv = oracles.bounds_arrays(s["lb"], s["ub"], Mt.shape[1])
    return Mt, c0, lbv, ubv


def _model_differs(s):
    """Does absolute capture differ from relative capture for this system?"""
    K, b = s["K"], s["baseline"]
    kd = K is not None and not np.all(np.asarray(K) == (np.eye(np.shape(K)[0]) if np.ndim(K) == 2 else 1.0))
    bd = b is not None and np.any(np.asarray(b) != 0)
    return bool(kd or bd)


def _corner_captures(Mt, c0, lbv, ubv):
    n = Mt.shape[1]
    bits = (np.arange(2 ** n)[:, None] >> np.arange(n)[None, :]) & 1
    X = np.where(bits.astype(bool), ubv[None, :], lbv[None, :])
    return X @ Mt.T + c0


class _Chroma:
    """Convex hull of the chromaticities of the rows of P in the coordinates 'first m-1 chromaticity entries'."""

    def __init__(self, P):
        self.P = P
        Pn = P / P.sum(axis=1, keepdims=True)
        self.Pc = Pn[:, :-1]
        self.d = self.Pc.shape[1]
        self.ext = float(np.max(self.Pc.max(0) - self.Pc.min(0)))
        if self.d == 1:
            lo, hi = float(self.Pc.min()), float(self.Pc.max())
            self.N = np.array([[1.0], [-1.0]])
            self.off = np.array([-hi, lo])
        else:
            from scipy.spatial import ConvexHull
            hull = ConvexHull(self.Pc)
            self.N = hull.equations[:, :-1]
            self.off = hull.equations[:, -1]

    def depth(self, Q):
        """Half-space depth of the rows of Q (>0 inside), relative to the extent."""
        Q = np.atleast_2d(Q)
        return -np.max(Q @ self.N.T + self.off[None, :], axis=1) / self.ext

    def ray(self, centre, D):
        """Largest t with centre + t d inside, for the rows d of D (inf for d = 0)."""
        D = np.atleast_2d(D)
        num = -(self.N @ centre + self.off)            # (F,) > 0 for an inside centre
        den = D @ self.N.T                             # (k, F)
        with np.errstate(all="ignore"):
            t = np.where(den > 0, num[None, :] / np.where(den > 0, den, 1.0), np.inf)
        return t.min(axis=1)


def _chromatic_gamut(Mt, c0, lbv, ubv):
    """(chroma, None) or (None, why-the-precondition-fails)."""
    if not np.all(np.isfinite(ubv)):
        return None, "ub not finite"
    P = _corner_captures(Mt, c0, lbv, ubv)
    P = P[np.any(P != 0, axis=1)]
    if len(P) == 0:
        return None, "no non-zero corner capture"
    if np.any(P < 0):
        return None, "gamut corner captures not non-negative (chromaticity undefined)"
    if np.any(P.sum(axis=1) <= 0):
        return None, "gamut corner with zero total"
    Pc = (P / P.sum(axis=1, keepdims=True))[:, :-1]
    if np.linalg.matrix_rank(Pc - Pc.mean(0), tol=1e-9) < Mt.shape[0] - 1:
        return None, "chromatic gamut not full-dimensional"
    return _Chroma(P), None


def _chi(b):
    b = np.asarray(b, dtype=float)
    return b / b.sum(axis=-1, keepdims=True)


# ------------------------------------------------------------------ systems

def _system(rng, m, rel, allow_matrix=True):
    n = int(rng.integers(m, m + 4))
    r = int(rng.integers(20))
    lbkind = "pos" if rng.integers(4) == 0 else "zero"
    adapted = False
    if r < 9:
        # 'adapted' system: K = 1 / (A x0 + baseline) for an interior x0, so the capture of x0 is the all-ones vector
        s = gen.make_system(rng, m=m, n=n, ubkind="finite", kkind="none", lbkind=lbkind)
        lbv, ubv = oracles.bounds_arrays(s["lb"], s["ub"], n)
        x0 = gen.interior_x(rng, lbv, ubv, 1, margin=0.15)[0]
        if rel:
            _, base = oracles.transform(s["A"], None, s["baseline"])
            s["K"] = 1.0 / (s["A"] @ x0 + base)
            s["kkind"] = "vector"
        else:
            # absolute capture: rescale the receptors so that the absolute capture of x0 is all-ones; K is then free
            s["A"] = s["A"] / (s["A"] @ x0)[:, None]
            kk = ["none", "scalar", "vector"][rng.integers(3)]
            s["K"], s["kkind"] = gen.make_K(rng, m, kk), kk
        adapted = True
    elif r < 18 or not allow_matrix:
        s = gen.make_system(rng, m=m, n=n, ubkind="finite", kkind=["none", "scalar", "vector"][rng.integers(3)],
                            lbkind=lbkind)
    else:
        s = gen.make_system(rng, m=m, n=n, ubkind="finite", kkind="matrix", lbkind=lbkind)
    s["adapted"] = adapted
    return s


def _layout(B, layout):
    if layout == "F":
        return np.asfortranarray(B)
    if layout == "view":
        big = np.zeros((B.shape[0], 2 * B.shape[1]), dtype=B.dtype)
        big[:, ::2] = B
        return big[:, ::2]
    return np.array(B, order="C")


# ------------------------------------------------------------------ clause 1: intensity (L1) scaling

def gen_l1(rng, i):
    rel = bool(i % 4 != 3)
    s = _system(rng, 2 + (i // 4) % 3, rel)
    Mt, c0, lbv, ubv = _eff(s, rel)
    m, n = Mt.shape
    ext = float(np.max(np.sum(np.abs(Mt) * (ubv - lbv), axis=1)))
    k = int([1, 2, 5, 12, 30][rng.integers(5)]) if rng.integers(3) else int(rng.integers(1, 31))
    rows = []
    for _ in range(k):
        t = int(rng.integers(8))
        if t <= 2:      # a capture of in-bound intensities, scaled light-induced part
            x = gen.interior_x(rng, lbv, ubv, 1)[0]
            rows.append(c0 + (Mt @ x) * float(np.exp(rng.uniform(-2, 2))))
        elif t <= 4:    # arbitrary non-negative row (entries may lie below the baseline)
            rows.append(rng.uniform(0, 1, m) * ext * float(np.exp(rng.uniform(-3, 1))))
        elif t == 5:    # all-zero row
            rows.append(np.zeros(m))
        elif t == 6:    # exactly the baseline (no light-induced part)
            rows.append(c0.copy())
        else:           # one receptor only above the baseline
            e = np.zeros(m)
            e[rng.integers(m)] = ext * float(np.exp(rng.uniform(-2, 2)))
            rows.append(c0 + e)
    B = np.maximum(np.array(rows), 0.0)
    s.update({"B": B, "relative": rel, "layout": ["C", "C", "F", "view"][rng.integers(4)],
              "int_dtype": bool(rng.integers(12) == 0)})
    if s["int_dtype"]:
        s["B"] = np.round(B * (255.0 / max(B.max(), 1e-300))).astype(np.int64)
    return s


def chk_l1(inp, c):
    rel = inp["relative"]
    Mt, c0, lbv, ubv = _eff(inp, rel)
    m, n = Mt.shape
    B = np.asarray(inp["B"])
    Bf = B.astype(float)
    c.cell(*["l1:" + x for x in gen.sys_cells(inp)], f"l1:relative={rel}", "l1:dtype=" + B.dtype.kind,
           "l1:layout=" + inp["layout"])
    if not np.all(np.isfinite(ubv)):
        c.unmet("ub not finite")
    if np.any(Bf < 0):
        c.unmet("targets not non-negative")
    amax = float(np.min(np.max(Mt * ubv[None, :], axis=1)))      # min over receptors of max over single sources at ub
    if not amax > 0:
        c.unmet("smallest single-source maximum not positive (matrix K with negative entries)")
    Bc = Bf - c0
    bmax = float(np.max(Bc))
    size = float(max(np.max(np.abs(Bf)), np.max(np.abs(c0)), amax))
    if not bmax > 1e-9 * size:
        c.unmet("no target exceeds the baseline (no positive light-induced capture)")
    est = c.call(gen.make_estimator, dreye, inp, _where="ReceptorEstimator+register_system")
    Barg = _layout(B, inp["layout"])
    keep = Barg.copy()
    kw = {} if (rel and inp["layout"] == "F") else {"relative": rel}    # relative=True is also the default
    out = c.call(est.gamut_l1_scaling, Barg, _where="gamut_l1_scaling", **kw)
    tag = ("rel" if rel else ("abs-differs" if _model_differs(inp) else "abs-same"))
    c.require(np.array_equal(Barg, keep), "the caller's target array is not modified", mechanism="l1:input-modified")
    if not c.require(isinstance(out, np.ndarray) and out.shape == B.shape, "result has the shape of the targets",
                     mechanism="l1:shape", got=str(getattr(out, "shape", type(out))), want=list(B.shape)):
        return
    out = np.asarray(out, dtype=float)
    if not c.require(np.all(np.isfinite(out)), "result is finite", mechanism="l1:nonfinite:" + tag):
        return
    oc = out - c0
    # one common positive factor: take it from the largest light-induced entry, test every entry against it
    jmax = np.unravel_index(int(np.argmax(Bc)), Bc.shape)
    f = float(oc[jmax] / Bc[jmax])
    c.require(f > 0, "the common factor is positive", mechanism="l1:factor-not-positive:" + tag, f=f, amax=amax, bmax=bmax)
    resid = float(np.max(np.abs(oc - f * Bc)))
    scale = max(size, abs(f) * size, float(np.max(np.abs(out))))
    c.margin("l1 |out-c-f(B-c)| / size", resid / scale, TOL_L1_RESID)
    c.require(resid <= TOL_L1_RESID * scale, "out - c_eff = f (B - c_eff) for one common factor f (every entry)",
              mechanism="l1:not-common-factor:" + tag, resid=resid, scale=scale, f=f, c_eff=c0)
    big = np.abs(Bc) >= 1e-3 * np.max(np.abs(Bc))
    ratios = oc[big] / Bc[big]
    spread = float((ratios.max() - ratios.min()) / abs(np.median(ratios))) if np.median(ratios) != 0 else np.inf
    c.margin("l1 factor spread", spread, TOL_F_SPREAD)
    c.require(spread <= TOL_F_SPREAD, "entry-wise ratio (out - c_eff)/(B - c_eff) is one common factor",
              mechanism="l1:factor-spread:" + tag, spread=spread, fmin=float(ratios.min()), fmax=float(ratios.max()))
    # largest capture becomes the smallest single-source maximum
    got = float(np.max(oc))
    c.margin("l1 max vs smallest single-source maximum", abs(got - amax) / amax, TOL_AMAX)
    c.require(abs(got - amax) <= TOL_AMAX * amax + 4e-16 * size,
              "the largest (light-induced) capture becomes min over receptors of max over sources of Mt_ij ub_j",
              mechanism="l1:max-not-smallest-single-source-max:" + tag, got=got, want=amax,
              per_receptor_single_source_max=np.max(Mt * ubv[None, :], axis=1), f=f)
    # chromaticity / capture ratios of the light-induced part unchanged (rows with a clearly positive part)
    pos = np.all(Bc >= 0, axis=1) & (Bc.sum(axis=1) >= 1e-3 * bmax)
    if np.any(pos) and np.all(oc[pos].sum(axis=1) != 0):
        dchi = float(np.max(np.abs(_chi(oc[pos]) - _chi(Bc[pos]))))
        c.margin("l1 chromaticity of the light-induced part", dchi, 1e-10)
        c.require(dchi <= 1e-10, "chromaticity (capture ratios) of the light-induced part is unchanged",
                  mechanism="l1:chromaticity-changed:" + tag, max_dev=dchi)
    elif np.any(pos):
        c.require(False, "chromaticity (capture ratios) of the light-induced part is unchanged",
                  mechanism="l1:chromaticity-changed:" + tag, note="scaled light-induced part has zero total")
    c.nontrivial(inp["basekind"] != "zero" or inp["kkind"] != "none" or inp["lbkind"] != "zero")
    amax_lb = float(np.min(np.max(Mt * lbv[None, :], axis=1)))
    c.note("l1", {"f": f, "largest_after": got, "smallest_single_source_max(ub)": amax,
                  "same_with_lb_instead_of_ub": amax_lb, "lb": inp["lbkind"], "relative": rel})


M.add("intensity_scaling", gen_l1, chk_l1, weight=1, min_held=100)


# ------------------------------------------------------------------ clause 2/3: chromatic (distance) scaling

def _rand_dir(rng, m):
    d = rng.normal(0, 1, m)
    d -= d.mean()
    nrm = np.linalg.norm(d)
    return d / nrm if nrm > 0 else _rand_dir(rng, m)


def _simplex_ray(centre, d):
    """largest t with centre + t d >= 0"""
    with np.errstate(all="ignore"):
        t = np.where(d < 0, -centre / np.where(d < 0, d, -1.0), np.inf)
    return float(t.min())


def _target_rows(rng, mode, k, ch, centre, m, other=None):
    """k chromaticities (rows summing to 1, >= 0) and their class labels; centre = neutral chromaticity (full coords)."""
    inside_ok = ch is not None and ch.depth(centre[None, :-1])[0] > 0
    if mode in ("inside", "inside+zero"):
        classes = ["inside", "inside", "inside", "deep", "neutral"]
    elif mode in ("needs", "needs+zero"):
        classes = ["inside", "outside", "outside", "near-corner", "rim-out", "neutral", "other-model"]
    elif mode == "saturated":
        classes = ["near-corner", "simplex-corner", "simplex-edge", "outside"]
    elif mode == "degenerate":
        classes = ["neutral"]
    else:
        classes = ["inside", "deep", "outside", "near-corner", "simplex-corner", "simplex-edge", "random", "neutral",
                   "rim-in", "rim-out", "rim", "corner-capture", "other-model"]
    rows, cls = [], []
    for j in range(k):
        kind = classes[rng.integers(len(classes))]
        if j == 0 and mode in ("needs", "needs+zero"):
            kind = "outside"
        if not inside_ok and kind in ("inside", "deep", "outside", "rim-in", "rim-out", "rim", "corner-capture"):
            kind = "random"
        if kind in ("inside", "deep", "outside", "rim-in", "rim-out", "rim"):
            if kind in ("inside", "deep") and rng.integers(2):
                # towards a convex combination of few corner chromaticities
                w = rng.dirichlet(np.full(len(ch.P), 0.3))
                q = w @ _chi(ch.P)
                d = q - centre
                nrm = np.linalg.norm(d)
                d = d / nrm if nrm > 1e-12 else _rand_dir(rng, m)
            else:
                d = _rand_dir(rng, m)
            t_rim = float(ch.ray(centre[:-1], d[None, :-1])[0])
            t_sx = _simplex_ray(centre, d)
            if kind == "inside":
                t = t_rim * float(rng.uniform(0.05, 0.97))
            elif kind == "deep":
                t = t_rim * float(rng.uniform(1e-4, 0.3))
            elif kind == "outside":
                t = float(rng.uniform(min(1.02 * t_rim, t_sx), t_sx)) if rng.integers(4) else t_sx
            elif kind == "rim-in":
                t = t_rim * (1 - [1e-3, 1e-5, 1e-8][rng.integers(3)])
            elif kind == "rim-out":
                t = min(t_rim * (1 + [1e-3, 1e-5, 1e-8][rng.integers(3)]), t_sx)
            else:
                t = min(t_rim, t_sx)
            q = np.maximum(centre + min(t, t_sx) * d, 0.0)
        elif kind == "corner-capture":
            q = _chi(ch.P[rng.integers(len(ch.P))])
        elif kind == "other-model":
            # a capture of in-bound intensities expressed in the *other* capture convention (relative <-> absolute)
            Mo, co, lbv, ubv = other
            q = Mo @ gen.interior_x(rng, lbv, ubv, 1, margin=0.1)[0] + co
            if np.any(q < 0) or not q.sum() > 0:
                q = rng.dirichlet(np.ones(m))
        elif kind == "near-corner":
            e = np.zeros(m)
            e[rng.integers(m)] = 1.0
            q = (1 - 10.0 ** rng.uniform(-6, -0.5)) * e
            q = q + (1 - q.sum()) * rng.dirichlet(np.ones(m))
        elif kind == "simplex-corner":
            q = np.zeros(m)
            q[rng.integers(m)] = 1.0
        elif kind == "simplex-edge":
            q = rng.dirichlet(np.ones(m))
            q[rng.integers(m)] = 0.0
            if q.sum() <= 0:
                q[0] = 1.0
        elif kind == "neutral":
            q = centre.copy()
        else:
            q = rng.dirichlet(np.ones(m) * float(np.exp(rng.uniform(-1.5, 1.5))))
            if q.sum() <= 0:
                q = np.ones(m)
        rows.append(q / q.sum())
        cls.append(kind)
    return np.array(rows), cls


def _gen_dist(rng, i, modes):
    mode = modes[i % len(modes)]
    rel = bool(rng.integers(3) != 0)
    s = _system(rng, int(rng.integers(2, 5)), rel, allow_matrix=True)
    Mt, c0, lbv, ubv = _eff(s, rel)
    m, n = Mt.shape
    ch, _why = _chromatic_gamut(Mt, c0, lbv, ubv)
    # neutral point
    nkind = ["default", "default", "explicit", "explicit", "explicit-any"][rng.integers(5)] if rng.integers(12) else "explicit-any"
    if nkind == "default":
        neutral = None
        nb = np.ones(m)
    elif nkind == "explicit":
        x1 = gen.interior_x(rng, lbv, ubv, 1, margin=0.1)[0]
        nb = (Mt @ x1 + c0) * float(np.exp(rng.uniform(-2, 2)))
        if np.any(nb < 0) or nb.sum() <= 0:
            nb = np.ones(m)
        neutral = nb.copy()
    else:   # an arbitrary direction: inside only by chance (precondition decides)
        nb = rng.dirichlet(np.ones(m) * 3.0) * float(np.exp(rng.uniform(-1, 1)))
        neutral = nb.copy()
    centre = nb / nb.sum()
    if mode == "single":
        k = 1
    elif mode == "degenerate":
        k = int(rng.integers(1, 5))
    else:
        k = int(rng.integers(1, 31)) if rng.integers(3) else int([2, 3, 5, 12, 30][rng.integers(5)])
    Q, cls = _target_rows(rng, "mixed" if mode == "single" else mode, k, ch, centre, m, other=_eff(s, not rel))
    tot = np.exp(rng.uniform(-3, 3, k)) if rng.integers(4) else np.exp(rng.uniform(-6, 6, k))
    B = Q * tot[:, None]
    nzero = 0
    if mode in ("inside+zero", "needs+zero") or (mode in ("mixed", "degenerate", "saturated") and rng.integers(3) == 0):
        nzero = int(rng.integers(1, 4))
    if mode == "single" and rng.integers(8) == 0:
        B = np.zeros((1, m)); cls = ["zero"]
    for _ in range(nzero):
        pos = int(rng.integers(len(B) + 1))
        B = np.insert(B, pos, 0.0, axis=0)
        cls.insert(pos, "zero")
    int_dtype = bool(rng.integers(16) == 0)
    if int_dtype:
        # image-like integer targets (values 0..255 per receptor)
        B = np.round(B / max(B.max(), 1e-300) * 255.0).astype(np.int64)
    s.update({"B": B, "classes": cls, "mode": mode, "relative": rel, "neutral": neutral, "nkind": nkind,
              "layout": ["C", "C", "F", "view"][rng.integers(4)], "int_dtype": int_dtype})
    return s


def gen_dist(rng, i):
    return _gen_dist(rng, i, DIST_MODES)


def gen_dist_inside(rng, i):
    return _gen_dist(rng, i, INSIDE_MODES)


def chk_dist(inp, c):
    rel = inp["relative"]
    Mt, c0, lbv, ubv = _eff(inp, rel)
    m, n = Mt.shape
    B = np.asarray(inp["B"])
    Bf = B.astype(float)
    explicit = inp["neutral"] is not None
    # ---- precondition, recomputed with the oracle
    ch, why = _chromatic_gamut(Mt, c0, lbv, ubv)
    if ch is None:
        c.cell("unmet:gamut")
        c.unmet(why)
    nb = np.ones(m) if not explicit else np.asarray(inp["neutral"], dtype=float)
    if nb.shape != (m,) or np.any(nb < 0) or not nb.sum() > 0:
        c.unmet("neutral point not a non-negative capture vector")
    centre = nb / nb.sum()
    dn = float(ch.depth(centre[None, :-1])[0])
    if dn < NEUTRAL_MARGIN:
        c.cell("unmet:neutral-outside")
        c.unmet("neutral point not strictly inside the chromatic gamut")
    tn = oracles.lp_chromatic_member(ch.P, centre)
    if tn is None:
        c.inconclusive("projective LP failed for the neutral point")
    if tn > 1e-9:
        c.unmet("neutral point not inside the chromatic gamut (projective LP)")
    if np.any(Bf < 0) or not np.all(np.isfinite(Bf)):
        c.unmet("targets not non-negative")

    tot = Bf.sum(axis=1)
    zero = tot == 0
    nzr = ~zero
    has_zero = bool(zero.any())
    chi_in = _chi(Bf[nzr]) if nzr.any() else np.zeros((0, m))
    dep_in = ch.depth(chi_in[:, :-1]) if nzr.any() else np.zeros(0)
    D_in = chi_in - centre[None, :]
    s_in = np.linalg.norm(D_in, axis=1)
    sat = s_in >= SAT_MIN
    if dep_in.size == 0 or dep_in.min() >= INSIDE:
        state = "already-inside"
    elif dep_in.min() <= -INSIDE:
        state = "needs-scaling"
    else:
        state = "rim-band"
    relkind = "rel" if rel else ("abs-differs" if _model_differs(inp) else "abs-same")
    ctx = relkind + (":zero-rows" if has_zero else ":no-zero-rows")
    c.cell(*gen.sys_cells(inp), f"relative={rel}", "neutral=" + ("explicit" if explicit else "default"),
           "zero-rows" if has_zero else "no-zero-rows", state, f"m={m}:{state}", "mode=" + inp["mode"],
           "dtype=" + B.dtype.kind, "layout=" + inp["layout"], "model=" + relkind, f"rows={'1' if len(B) == 1 else '2+'}")
    if inp.get("adapted"):
        c.cell("K=adapted")
    if np.any(~sat):
        c.cell("zero-saturation-rows")
    if not sat.any():
        c.cell("no-saturated-row")
    if zero.all():
        c.cell("all-rows-zero")

    # ---- drive the real method
    est = inp.get("_live_estimator")      # set by the re-registration clause: an estimator with a history
    if est is None:
        est = c.call(gen.make_estimator, dreye, inp, _where="ReceptorEstimator+register_system")
    Barg = _layout(B, inp["layout"])
    keep = Barg.copy()
    kw = {}
    if explicit:
        kw["neutral_point"] = np.array(inp["neutral"], dtype=float)
    if not (rel and inp["layout"] == "F"):      # relative=True is also the default
        kw["relative"] = rel
    out = c.call(est.gamut_dist_scaling, Barg, _where="gamut_dist_scaling", **kw)
    c.require(np.array_equal(Barg, keep), "the caller's target array is not modified", mechanism="dist:input-modified")
    if explicit:
        c.require(np.array_equal(kw["neutral_point"], inp["neutral"]), "the caller's neutral point is not modified",
                  mechanism="dist:neutral-modified")
    if not c.require(isinstance(out, np.ndarray) and out.shape == B.shape, "result has the shape of the targets",
                     mechanism="dist:shape", got=str(getattr(out, "shape", type(out))), want=list(B.shape)):
        return
    out = np.asarray(out, dtype=float)
    finite = bool(np.all(np.isfinite(out)))

    # ---- unchanged when every chromaticity already lies in the gamut (with margin).  Judged first: when it fails,
    # every other symptom (expanded saturation, moved neutral rows, NaN) is a consequence of the same event.
    if state == "already-inside":
        dev = float(np.max(np.abs(out - Bf))) / float(max(tot.max(), 1e-300)) if finite else np.inf
        if finite:
            c.margin("dist unchanged-when-inside", dev, TOL_UNCHANGED)
        symptom = "non-finite values" if not finite else "changed"
        if finite and nzr.any() and np.all(out[nzr].sum(axis=1) > 0):
            so = np.linalg.norm(out[nzr] / out[nzr].sum(axis=1, keepdims=True) - centre[None, :], axis=1)
            with np.errstate(all="ignore"):
                g = np.where(s_in > 0, so / np.where(s_in > 0, s_in, 1.0), np.where(so > 0, np.inf, 1.0))
            symptom = "saturation factors %.6g .. %.6g" % (float(np.min(g)), float(np.max(g)))
        if not c.require(dev <= TOL_UNCHANGED, "targets whose chromaticities all lie in the gamut are returned unchanged",
                         mechanism="dist:inside-not-unchanged:" + ctx, max_rel_dev=dev, symptom=symptom,
                         min_depth_in=float(dep_in.min()) if dep_in.size else None, classes=inp["classes"][:8],
                         out_head=out[:4]):
            c.nontrivial()
            c.note("dist", {"state": state, "symptom": symptom, "rows": int(len(B)), "zero_rows": int(zero.sum())})
            return
    if not c.require(finite, "result is finite", mechanism="dist:nonfinite:" + ctx,
                     n_nonfinite_rows=int(np.sum(~np.all(np.isfinite(out), axis=1))), classes=inp["classes"][:8]):
        return

    # ---- totals, zero rows
    if has_zero:
        c.require(np.all(out[zero] == 0), "all-zero rows stay all-zero", mechanism="dist:zero-row-not-zero:" + relkind,
                  got=out[zero][:3])
    if not nzr.any():
        c.note("dist", {"state": state, "rows": int(len(B)), "all_zero": True})
        return
    tot_out = out[nzr].sum(axis=1)
    dtot = np.abs(tot_out - tot[nzr]) / tot[nzr]
    c.margin("dist row totals (rel)", float(dtot.max()), TOL_TOTAL)
    ok_tot = c.require(dtot.max() <= TOL_TOTAL, "every row's total capture is preserved",
                       mechanism="dist:total-changed:" + relkind, worst_rel=float(dtot.max()),
                       total_in=tot[nzr][:4], total_out=tot_out[:4])
    if not ok_tot and np.any(tot_out <= 0):
        return
    chi_out = out[nzr] / tot_out[:, None]
    D_out = chi_out - centre[None, :]
    s_out = np.linalg.norm(D_out, axis=1)

    # ---- hue direction and one common saturation factor
    alpha = None
    if sat.any():
        a = np.sum(D_out[sat] * D_in[sat], axis=1) / np.sum(D_in[sat] ** 2, axis=1)
        perp = np.linalg.norm(D_out[sat] - a[:, None] * D_in[sat], axis=1)
        c.margin("dist hue residual (chromaticity units)", float(perp.max()), TOL_HUE_RESID)
        # (a per-row factor is resolved to ~1e-16 / saturation: judge the sign in chromaticity units)
        c.require(np.sum(D_out[sat] * D_in[sat]) > 0 and np.all(a * s_in[sat] > -TOL_HUE_RESID),
                  "hue direction from the neutral point is kept (not reversed, not collapsed)",
                  mechanism="dist:hue-reversed:" + ctx, factors=a[:6])
        c.require(perp.max() <= TOL_HUE_RESID, "every scaled chromaticity lies on the ray neutral -> original chromaticity",
                  mechanism="dist:hue-changed:" + ctx, worst=float(perp.max()))
        live = s_out[sat] >= 1e-9
        if live.any():
            cosv = np.sum(D_out[sat][live] * D_in[sat][live], axis=1) / (s_out[sat][live] * s_in[sat][live])
            c.margin("dist 1 - cos(hue)", float(np.max(1 - cosv)), TOL_COS)
            c.require(np.all(cosv >= 1 - TOL_COS), "cosine between original and scaled hue direction is 1",
                      mechanism="dist:hue-cosine:" + ctx, worst=float(np.min(cosv)))
        # one common factor: least-squares alpha over all saturated rows, every row judged against it in chromaticity
        # units (well conditioned however small alpha or the saturation is) ...
        alpha = float(np.sum(D_out[sat] * D_in[sat]) / np.sum(D_in[sat] ** 2))
        res = np.linalg.norm(D_out[sat] - alpha * D_in[sat], axis=1)
        tol_r = TOL_HUE_RESID + TOL_ALPHA_SPREAD * abs(alpha) * s_in[sat]
        c.margin("dist |chi(out)-centre-alpha(chi(B)-centre)| / tol", float(np.max(res / tol_r)), 1.0)
        c.require(np.all(res <= tol_r), "chi(out) - centre = alpha (chi(B) - centre) with one common alpha for every row",
                  mechanism="dist:no-common-factor:" + ctx, worst=float(res.max()), alpha=alpha, amin=float(a.min()),
                  amax=float(a.max()))
        # ... and the relative spread of the per-row factors over rows whose scaled saturation is resolvable
        wc = np.abs(alpha) * s_in[sat] >= 1e-6
        if wc.sum() >= 2 and alpha != 0:
            spread = float((a[wc].max() - a[wc].min()) / abs(alpha))
            c.margin("dist saturation-factor spread", spread, TOL_ALPHA_SPREAD)
            c.require(spread <= TOL_ALPHA_SPREAD, "all saturations are scaled by one common factor (ratio spread)",
                      mechanism="dist:no-common-factor:" + ctx, spread=spread, amin=float(a[wc].min()),
                      amax=float(a[wc].max()))
        c.require(a.max() <= 1 + TOL_ALPHA_GT1, "saturations are contracted (common factor <= 1)",
                  mechanism="dist:expands-saturation:" + ctx, alpha=float(a.max()),
                  min_depth_in=float(dep_in.min()), classes=inp["classes"][:8])
    if np.any(~sat):
        grow = s_out[~sat] - s_in[~sat] * (1 + 1e-6)
        c.require(np.all(grow <= 1e-12), "rows in the neutral direction stay there",
                  mechanism="dist:neutral-row-moved:" + ctx, worst=float(grow.max()))

    # ---- containment of every scaled chromaticity
    dep_out = ch.depth(chi_out[:, :-1]) * ch.ext       # chromaticity units
    c.margin("dist containment: -depth(chi(out))", float(max(-dep_out.min(), 0.0)), TOL_MEMBER)
    contained = c.require(dep_out.min() >= -TOL_MEMBER and np.all(chi_out >= -TOL_MEMBER),
                          "every scaled chromaticity lies in the chromatic gamut (facet depth)",
                          mechanism="dist:not-contained:" + ctx, worst_depth=float(dep_out.min()),
                          n_outside=int(np.sum(dep_out < -TOL_MEMBER)), alpha=alpha)
    worst_lp = 0.0
    for j in np.argsort(dep_out)[:5]:
        q = np.maximum(chi_out[j], 0.0) if np.all(chi_out[j] >= -TOL_MEMBER) else chi_out[j]
        t = oracles.lp_chromatic_member(ch.P, q / q.sum())
        if t is None:
            c.inconclusive("projective LP failed for a scaled chromaticity", abort=False)
            continue
        worst_lp = max(worst_lp, t)
        if contained:
            c.require(t <= TOL_MEMBER, "every scaled chromaticity is a convex combination of corner chromaticities (LP)",
                      mechanism="dist:not-contained-lp:" + ctx, residual=t, depth=float(dep_out[j]))
    c.margin("dist containment: LP residual", worst_lp, TOL_MEMBER)

    # ---- all-zero rows have no chromaticity: they must not take part in the choice of the common factor
    # (the code documents that it substitutes the neutral point for them).  Twin run without the zero rows.
    if has_zero and not c.violations:
        twin = c.call(est.gamut_dist_scaling, _layout(B[nzr], "C"), _where="gamut_dist_scaling(zero rows removed)", **kw)
        twin = np.asarray(twin, dtype=float)
        key = "dist:zero-rows-influence-factor:" + relkind + (":float" if B.dtype.kind == "f" else ":int-dtype")
        if c.require(twin.shape == out[nzr].shape and np.all(np.isfinite(twin)),
                     "twin run without the zero rows returns a finite array of the same shape", mechanism=key,
                     twin_head=twin[:3] if twin.ndim == 2 else None):
            dtw = float(np.max(np.abs(twin - out[nzr]))) / float(tot.max())
            # rows within 1e-6 of the rim may or may not count as inside: 'unchanged' and 'contracted onto the rim'
            # are both acceptable there and differ by up to ~1e-6
            tol_tw = 1e-5 if state == "rim-band" else 1e-10
            c.margin("dist zero rows do not influence the result", dtw, tol_tw)
            c.require(dtw <= tol_tw, "all-zero rows do not influence how the other rows are scaled", mechanism=key,
                      max_rel_dev=dtw, alpha_with_zero_rows=alpha, neutral="explicit" if explicit else "default")

    # ---- recorded, not asserted: tightness of the common factor
    rec = {"state": state, "alpha": alpha, "rows": int(len(B)), "zero_rows": int(zero.sum()),
           "min_depth_in": float(dep_in.min()), "min_depth_out": float(dep_out.min() / ch.ext), "neutral_depth": dn}
    if sat.any():
        t_r = ch.ray(centre[:-1], D_in[sat][:, :-1])
        a_star = float(min(1.0, t_r.min()))
        rec["alpha_largest_admissible"] = a_star
        if alpha is not None and state == "needs-scaling":
            tight = abs(alpha - a_star) <= 1e-8
            c.cell("alpha=tight" if tight else "alpha=not-tight")
            rec["alpha_minus_largest_admissible"] = alpha - a_star
    c.note("dist", rec)
    c.nontrivial(bool(sat.any()) and (state == "needs-scaling" or has_zero or explicit or not rel or m == 2))


def gen_dist_rereg(rng, i):
    s = _gen_dist(rng, i, DIST_MODES)
    s["rereg_seed"] = int(rng.integers(0, 2 ** 31 - 1))
    return s


def chk_dist_rereg(inp, c):
    """The chromatic gamut used is that of the CURRENTLY registered values: scale once, change a registration on the same
    estimator, scale again and judge the second answer against the new system."""
    est = c.call(gen.make_estimator, dreye, inp, _where="ReceptorEstimator+register_system")
    kw = {} if inp["neutral"] is None else {"neutral_point": np.array(inp["neutral"], dtype=float)}
    c.try_call(est.gamut_dist_scaling, np.asarray(inp["B"]).copy(), relative=inp["relative"], **kw)
    c.try_call(est.gamut_l1_scaling, np.asarray(inp["B"]).astype(float) + 1.0, relative=inp["relative"])
    rr = np.random.default_rng(inp["rereg_seed"])
    ok, res = c.try_call(gen.reregister, rr, est, inp, None, False)
    if not ok:
        c.fail(f"registration call raised {type(res).__name__}: {str(res)[:100]}", mechanism="rereg-raised")
    op, t = res
    c.cell("rereg=" + op)
    t = dict(t)
    t["_live_estimator"] = est
    chk_dist(t, c)


M.add("chromatic_scaling_after_reregistration", gen_dist_rereg, chk_dist_rereg, weight=1, min_held=40)
M.add("chromatic_scaling", gen_dist, chk_dist, weight=3, min_held=150)
M.add("chromatic_already_inside", gen_dist_inside, chk_dist, weight=1, min_held=50)
