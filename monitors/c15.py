"""C15 — results are equivariant under a change of physical units.

Twin-run monitor: each generated problem (A, lb, ub, K, baseline, B) is executed twice, in the
original units and in rescaled units (A*s*c, lb/s, ub/s, K, baseline*c, B*c), and the results are
compared through the equivariance relation itself.  Asserted only when both twins are in the
well-scaled regime of C04; outside it the disagreement is recorded (stress exploration).
"""
import numpy as np

from harness import runtime, oracles, gen
from harness.core import Monitor

dreye = None
cp = None
convex = None


def _setup():
    global dreye, cp, convex
    dreye = runtime.load_dreye()
    import cvxpy as cp_
    import dreye.api.convex as convex_  # noqa
    cp, convex = cp_, convex_


M = Monitor(
    pid="C15",
    setup=_setup,
    title="Results are equivariant under a change of physical units",
    rule=("cases: one well-scaled system with targets (interior, near-boundary at +-{1e-3,1e-5}*extent, outside) and unit factors "
          "s, c log-uniform in [1e-4,1e4] (half of them in [0.1,10] so that both twins stay in the regime); operation in "
          "{membership, range of solutions, default fit, high-accuracy fit}. non-trivial = both twins in the regime and "
          "max(|log10 s|,|log10 c|) >= 0.3. Outside the regime the relation is recorded per decade, never asserted"),
    budget={"quick": (1600, 70), "thorough": (60000, 1500)},
    anchors=[("dreye.api.convex", "in_hull"), ("dreye.api.convex", "convex_combination"),
             ("dreye.api.convex", "_range_of_solutions"), ("dreye.api.optimize.lsq_linear", "_solve_problem"),
             ("dreye.api.optimize.lsq_linear", "lsq_linear")],
    deciding=["convex.in_hull", "convex._range_of_solutions", "lsq_linear._solve_problem"],
    required_cells={"all": ["op=membership", "op=range", "op=fit-default", "op=fit-tight", "asserted", "recorded-only",
                            "path=delaunay", "path=nnls-fallback", "path=affine-cone"]},
    assumptions=["membership asserted for |depth| >= 1e-6*extent; range within 1e-6*range; fits within the sum of both twins' "
                 "C04 tolerances in a common unit (default 2e-2 / 1 %, high accuracy 2e-3 / 1e-6)"],
)

OPS = ["membership", "range", "fit-default", "fit-tight"]


def gen_case(rng, i):
    op = OPS[i % 4]
    if op == "fit-default" and (i // 4) % 3 == 2:
        op = "fit-poisson"      # the Poisson model is unit-equivariant as well (its optimum does not depend on c)
    if op == "fit-poisson":
        m = int(rng.integers(2, 5))
        s_ = gen.make_system(rng, m=m, n=int(rng.integers(1, m + 1)), ubkind="finite",
                             kkind=["none", "scalar", "vector"][rng.integers(3)])
    elif op == "range":
        m = int(rng.integers(2, 5))
        s_ = gen.make_system(rng, m=m, n=m + int(rng.integers(1, 4)), ubkind="finite")
    elif op == "membership":
        mode = i // 4 % 3
        if mode == 0:
            m = int(rng.integers(2, 6))
            s_ = gen.make_system(rng, m=m, n=int(rng.integers(m, min(8, m + 3) + 1)), ubkind="finite")
        elif mode == 1:
            s_ = gen.make_system(rng, m=int(rng.integers(2, 5)), n=int(rng.integers(1, 7)), ubkind="inf")
        else:
            m = int(rng.integers(3, 6))
            s_ = gen.make_system(rng, m=m, n=int(rng.integers(1, m)), ubkind="finite")
    else:
        s_ = gen.make_system(rng, mrange=(1, 5), nrange=(1, 8), ubkind="finite" if rng.integers(4) else "inf")
    Mt, c0, lbv, ubv = gen.sys_arrays(s_)
    m, n = Mt.shape
    finite = np.all(np.isfinite(ubv))
    T = []
    X = gen.interior_x(rng, lbv, ubv, 3)
    for x in X:
        T.append(Mt @ x + c0)
    if finite and n >= m:
        Z = oracles.Zonotope(Mt, c0, lbv, ubv)
        if len(Z.U):
            pts, nrm = Z.facet_points(rng, 3)
            for p, u in zip(pts, nrm):
                d = [1e-3, 1e-5][rng.integers(2)] * Z.extent
                T.append(p - d * u)
                T.append(p + d * u)
    scale = float(np.max(np.abs(T)))
    T.append(T[0] + rng.normal(0, 0.5, m) * scale)
    n_plain = len(T)
    if op == "membership" and not (finite and n >= m):
        for tgt, _k in gen.near_boundary_targets(rng, Mt, c0, lbv, ubv, T[:3], scale, 2):
            T.append(tgt)
    s_["n_plain"] = n_plain
    Bm = np.clip(np.array(T), -100, 100)
    wide = rng.integers(4) == 0
    if wide:
        sfac, cfac = float(10 ** rng.uniform(-4, 4)), float(10 ** rng.uniform(-4, 4))
    else:
        # unit changes that keep the twin in the regime: bounds/s in [0.05, 10], extent*c in [1, 100], |targets|*c <= 100
        fin = ubv[np.isfinite(ubv)]
        pos = np.concatenate([fin, lbv[lbv > 0]])
        s_lo = (np.max(pos) / 10) if pos.size else 1e-2
        s_hi = (np.min(pos) / 0.05) if pos.size else 1e2
        rng_ = np.where(np.isfinite(ubv), ubv - lbv, 1.0)
        ext = np.sum(np.abs(Mt) * rng_, axis=1)
        c_lo = 1.0 / ext.min()
        c_hi = min(100.0 / ext.max(), 100.0 / max(float(np.max(np.abs(Bm))), 1e-9))
        if op in ("membership", "range"):
            # C15's regime for the geometric answers is "captures >= 1, bounds in [0.05, 10]": no upper limit on captures
            c_hi = 1e6 / ext.max()
        if s_lo >= s_hi or c_lo >= c_hi:
            sfac, cfac = 1.0, 1.0
        else:
            # boundary-seeking: the corners of the admissible unit changes as often as its interior
            pick = lambda lo, hi: float([lo * 1.0001, hi * 0.9999, np.exp(rng.uniform(np.log(lo), np.log(hi)))][rng.integers(3)])
            sfac, cfac = pick(s_lo, s_hi), pick(c_lo, c_hi)
    # range op: in one case of three the target is the capture of a SPARSE intensity vector (one or two sources at their
    # upper bound, the others at the lower bound): many basic solutions of the enumeration then sit exactly on a bound
    k_sp = int(rng.integers(1, 3))
    s_["sparse_idx"] = [int(j) for j in rng.permutation(n)[:k_sp]] if rng.integers(3) == 0 else None
    if op == "fit-poisson":
        Bm = np.abs(Bm)
    s_.update({"B": Bm, "op": op, "s": sfac, "c": cfac, "internal": bool(rng.integers(3) == 0)})
    return s_


def twin(inp):
    s, cc = inp["s"], inp["c"]
    t = dict(inp)
    t["A"] = inp["A"] * s * cc
    t["lb"] = None if inp["lb"] is None else np.asarray(inp["lb"], float) / s
    t["ub"] = None if inp["ub"] is None else np.asarray(inp["ub"], float) / s
    t["baseline"] = None if inp["baseline"] is None else (inp["baseline"] * cc)
    t["B"] = inp["B"] * cc
    return t


def _paths(c):
    for p in sorted({f["path"] for k, f in c.events if k == "hull.path"}):
        c.cell("path=" + p)


def chk_case(inp, c):
    t = twin(inp)
    s, cc, op = inp["s"], inp["c"], inp["op"]
    ok1, _ = gen.regime_report(inp["A"], inp["lb"], inp["ub"], inp["K"], inp["baseline"], inp["B"])
    ok2, _ = gen.regime_report(t["A"], t["lb"], t["ub"], t["K"], t["baseline"], t["B"])
    asserted = ok1 and ok2
    if op in ("membership", "range"):
        # geometric answers involve no solver tolerance: asserted whenever both twins have captures >= 1 and bounds in
        # [0.05, 10] (C15's own regime), without C04's upper limit of 100 capture units
        r1 = gen.regime_report(inp["A"], inp["lb"], inp["ub"], inp["K"], inp["baseline"])[1]
        r2 = gen.regime_report(t["A"], t["lb"], t["ub"], t["K"], t["baseline"])[1]
        asserted = all(r["bounds_ok"] and r["cond_ok"] and r["extent"][0] >= 1 for r in (r1, r2))
    decade = f"log10s={int(np.round(np.log10(s)))},log10c={int(np.round(np.log10(cc)))}"
    c.cell("op=" + op, "asserted" if asserted else "recorded-only", *gen.sys_cells(inp))
    Mt, c0, lbv, ubv = gen.sys_arrays(inp)
    Mt2, c02, lbv2, ubv2 = gen.sys_arrays(t)
    m, n = Mt.shape
    B, B2 = inp["B"], t["B"]
    finite = np.all(np.isfinite(ubv))
    e1 = c.call(gen.make_estimator, dreye, inp, _where="ReceptorEstimator (original units)")
    e2 = c.call(gen.make_estimator, dreye, t, _where="ReceptorEstimator (rescaled units)")

    def judge(cond, what, mechanism, **detail):
        if asserted:
            c.require(cond, what, mechanism=mechanism, s=s, c=cc, **detail)
        elif not cond:
            c.cell("disagree-outside-regime:" + op)
            c.note("disagreement_outside_regime", {"op": op, "decade": decade, **{k: v for k, v in detail.items() if np.ndim(v) == 0}})

    if op == "membership":
        ok_a, g1 = c.try_call(e1.in_gamut, B.copy())
        ok_b, g2 = c.try_call(e2.in_gamut, B2.copy())
        _paths(c)
        if not (ok_a and ok_b):
            judge(False, "membership query returns in both unit systems", "membership-raised",
                  err=str(g1 if not ok_a else g2)[:80])
            return
        g1, g2 = np.asarray(g1), np.asarray(g2)
        if finite and n >= m:
            Z = oracles.Zonotope(Mt, c0, lbv, ubv)
            dec = np.abs(Z.depth(B) / Z.extent) >= 1e-6 if Z.full_dim else np.zeros(len(B), bool)
        else:
            # fallback paths: only constructed interiors (first three rows) and the far-outside row are decided
            dec = np.zeros(len(B), bool)
            dec[:3] = True
            npl = int(inp.get("n_plain", len(B)))
            dec[npl - 1] = True
            # near-boundary targets (constructed >= 1e-5*scale from the boundary): decided when the LP oracle is clear
            scale_ = float(np.max(np.abs(B[:3]))) + 1e-300
            for j in range(npl, len(B)):
                tres, _ = oracles.lp_feasible_residual(Mt, c0, lbv, ubv, B[j])
                dec[j] = tres is not None and (tres == 0.0 or tres >= 2e-6 * scale_)
        judge(np.array_equal(g1[dec], g2[dec]), "gamut membership is unchanged by a change of units", "membership-differs",
              n_differ=int(np.sum(g1[dec] != g2[dec])))
        c.note("membership", {"orig": g1, "twin": g2})
    elif op == "range":
        b = B[:3]           # the three constructed interior captures, as one batch
        rkw, rtol = {}, 1e-6
        if inp.get("sparse_idx") is not None and finite:
            c.cell("range:sparse-target")
            xs = lbv.copy()
            xs[inp["sparse_idx"]] = ubv[inp["sparse_idx"]]
            b = Mt @ xs + c0
            # such a target may lie on the gamut boundary, where the membership pre-test of range_of_solutions may go either
            # way in either twin (error='ignore': no raise).  Both twins enumerating: exact comparison.  Both best-fitting:
            # solver accuracy on an ill-conditioned boundary fit.  One of each: not comparable (counted, not judged).
            rkw = {"error": "ignore"}
            ok1, g1 = c.try_call(e1.in_gamut, b.copy())
            ok2, g2 = c.try_call(e2.in_gamut, (b * cc).copy())
            if not (ok1 and ok2) or bool(np.all(g1)) != bool(np.all(g2)):
                c.cell("range:sparse-target-paths-differ")
                c.unmet("sparse target on the gamut boundary: the twins answer through different paths (enumeration / best fit)")
            rtol = 1e-6 if bool(np.all(g1)) else 5e-2
        ok_a, r1 = c.try_call(e1.range_of_solutions, b.copy(), **rkw)
        ok_b, r2 = c.try_call(e2.range_of_solutions, (b * cc).copy(), **rkw)
        if not ok_a and not ok_b:
            c.cell("range:both-raise")        # e.g. the (clipped) target is outside the gamut in both unit systems
            judge(type(r1) is type(r2), "the range query fails in the same way in both unit systems", "range-raise-kind-differs")
            c.nontrivial(asserted)
            return
        if not (ok_a and ok_b):
            judge(False, "the range query answers in both unit systems or in neither", "range-raised-in-one-twin",
                  err=str(r1 if not ok_a else r2)[:80])
            return
        rngx = ubv - lbv
        d = max(float(np.max(np.abs(np.asarray(r2[0]) * s - np.asarray(r1[0])) / rngx)),
                float(np.max(np.abs(np.asarray(r2[1]) * s - np.asarray(r1[1])) / rngx)))
        if asserted:
            c.margin("range equivariance / tol", d, rtol)
        judge(d <= rtol, "solution ranges scale by exactly 1/s", "range-not-equivariant", rel_dev=d)
        c.note("range_rel_dev", d)
    elif op == "fit-poisson":
        ok_a, f1 = c.try_call(e1.fit, B.copy(), model="poisson")
        ok_b, f2 = c.try_call(e2.fit, B2.copy(), model="poisson")
        if not (ok_a and ok_b):
            if not ok_a and not ok_b:
                c.unmet("the Poisson fit fails in both unit systems (C07's business)")
            judge(False, "the Poisson fit returns in both unit systems or in neither", "poisson-raised-in-one-twin",
                  err=str(f1 if not ok_a else f2)[:80])
            return
        X1, P1 = np.asarray(f1[0], float), np.asarray(f1[1], float)
        X2, P2 = np.asarray(f2[0], float), np.asarray(f2[1], float)
        scale_p = max(1.0, float(np.max(np.abs(P1))))
        dP = float(np.max(np.abs(P2 - cc * P1))) / (cc * scale_p)
        if asserted:
            c.margin("poisson prediction equivariance / 5e-3", dP, 5e-3)
        judge(dP <= 5e-3, "Poisson fit: predicted captures scale by c", "poisson-prediction-not-equivariant", rel_dev=dP)
        if n <= m and np.linalg.matrix_rank(Mt) == n and finite:
            # intensities follow from the predictions through the capture matrix: the allowance is the prediction
            # allowance (both twins) divided by the smallest singular value
            smin = float(np.linalg.svd(Mt, compute_uv=False)[-1])
            dX = float(np.max(np.abs(X2 * s - X1)))
            tolX = 2 * 5e-3 * scale_p / smin
            judge(dX <= tolX, "Poisson fit: uniquely determined intensities scale by 1/s", "poisson-intensities-not-equivariant",
                  dev=dX, allowance=tolX)
        c.note("poisson_rel_dev", dP)
    else:
        tight = op == "fit-tight"
        kw = dict(solver=cp.CLARABEL, tol_gap_abs=1e-9, tol_gap_rel=1e-9, tol_feas=1e-9) if tight else {}
        tau_e, tau_b = (2e-3, 1e-6) if tight else (2e-2, 1e-2)
        if inp.get("internal", False):
            # registered-target mode: register_targets(B); fit()  -> est.X, est.B
            c.cell("api=register_targets+fit()")

            def run(e, Bt):
                e.register_targets(Bt)
                e.fit(**kw)
                return np.array(e.X, dtype=float), np.array(e.B, dtype=float)
            ok_a, f1 = c.try_call(run, e1, B.copy())
            ok_b, f2 = c.try_call(run, e2, B2.copy())
        else:
            ok_a, f1 = c.try_call(e1.fit, B.copy(), **kw)
            ok_b, f2 = c.try_call(e2.fit, B2.copy(), **kw)
        if not (ok_a and ok_b):
            judge(False, "fit returns in both unit systems", "fit-raised", err=str(f1 if not ok_a else f2)[:80])
            return
        X1, P1 = np.asarray(f1[0], float), np.asarray(f1[1], float)
        X2, P2 = np.asarray(f2[0], float), np.asarray(f2[1], float)
        st = sorted({str(f.get("status")) for k, f in c.events if k == "solve.status"})
        if tight and any(x not in ("optimal", "optimal_inaccurate") for x in st):
            # only for solver settings chosen by the caller (C04 known finding '...:explicit-solver'); the default
            # path is solved by Clarabel since repo fix c46726f and is judged whatever its status
            c.cell("solver-stalled")
            c.unmet("a solve with caller-chosen high-accuracy settings did not converge (C04 known finding)")
        err1 = np.linalg.norm(P1 - B, axis=1)
        err2 = np.linalg.norm(P2 - B2, axis=1)
        # each twin may be tau_e above its optimum and, because intensities may leave the bounds by tau_b of the
        # range, below it by the capture effect of that excursion; optima themselves scale exactly by c
        if finite:
            exc1 = float(np.linalg.norm(np.abs(Mt) @ (tau_b * (ubv - lbv))))
        else:
            exc1 = float(np.linalg.norm(np.abs(Mt) @ (tau_b * (np.max(np.abs(X1), axis=0) + 1))))
        tol_err = (tau_e + cc * tau_e) + 2 * cc * exc1
        d_err = float(np.max(np.abs(err2 - cc * err1)))
        if asserted:
            c.margin(f"{op}: error equivariance / tol", d_err, tol_err)
        judge(d_err <= tol_err, "fit errors scale by c", "fit-error-not-equivariant", dev=d_err, tol=tol_err)
        # predictions: two eps-optimal predictions of a convex problem differ by at most sqrt(2 e eps + eps^2)
        dpred = np.max(np.abs(P2 - cc * P1), axis=1)
        bound = np.sqrt(2 * err2 * tau_e + tau_e ** 2) + cc * np.sqrt(2 * err1 * tau_e + tau_e ** 2) + 2 * cc * exc1
        if asserted:
            c.margin(f"{op}: prediction equivariance / bound", float(np.max(dpred / bound)), 1.0)
        judge(np.all(dpred <= bound), "predicted captures scale by c", "prediction-not-equivariant",
              worst=float(np.max(dpred / bound)))
        if n <= m and np.linalg.matrix_rank(Mt) == n and finite:
            rngx = ubv - lbv
            smin = float(np.linalg.svd(Mt, compute_uv=False)[-1])
            tolx = 2 * tau_b * rngx + 2 * np.max(bound) / (cc * smin) * 0 + 2 * (np.sqrt(2 * np.max(err1) * tau_e + tau_e ** 2)) / smin
            dx = np.max(np.abs(X2 * s - X1), axis=0)
            if asserted:
                c.margin(f"{op}: intensity equivariance / tol", float(np.max(dx / tolx)), 1.0)
            judge(np.all(dx <= tolx), "uniquely determined fitted intensities scale by exactly 1/s", "intensity-not-equivariant",
                  worst=float(np.max(dx / tolx)))
        c.note("fit_equivariance", {"err_dev": d_err, "pred_dev": float(np.max(dpred)), "statuses": st})
    c.nontrivial(asserted and max(abs(np.log10(s)), abs(np.log10(cc))) >= 0.3)
    c.note("units", {"s": s, "c": cc, "asserted": bool(asserted), "decade": decade})


M.add("unit_twin", gen_case, chk_case, weight=1, min_held=300)
