#!/bin/sh
# usage: selftest/import_seed.sh /tmp/wt_C10 C10-lb-constraint-dropped
# copies <worktree>/_seed/{patch.diff,demo*.py,meta.json} into seeded/<name>/ (the patch is regenerated from the worktree)
wt="$1"; name="$2"
d="$(cd "$(dirname "$0")/.." && pwd)/seeded/$name"
mkdir -p "$d"
git -C "$wt" diff -- dreye > "$d/patch.diff"
cp "$wt"/_seed/demo*.py "$d"/ 2>/dev/null
cp "$wt"/_seed/meta.json "$d"/meta.json
ls -la "$d"; wc -l "$d/patch.diff"
