#!/venv/bin/python
"""Sensitivity self-test: apply each semantic mutant to a scratch copy of /repo (under /tmp,
removed afterwards) and run the quick check of its property against the copy
(VERIF_REPO_ROOT).  Expected: exit 1 with a VIOLATION line.

usage: selftest/run.py [--only C04] [--id name] [--tier quick] [--jobs 1]
"""
import argparse
import json
import os
import shutil
import subprocess
import sys
import tempfile

ROOT = os.path.dirname(os.path.dirname(os.path.abspath(__file__)))


def main():
    ap = argparse.ArgumentParser()
    ap.add_argument("--only")
    ap.add_argument("--id")
    ap.add_argument("--tier", default="quick")
    ap.add_argument("--seed", default="0")
    a = ap.parse_args()
    muts = json.load(open(os.path.join(ROOT, "selftest", "mutants.json")))
    res = []
    for mu in muts:
        if a.only and mu["property"] != a.only:
            continue
        if a.id and mu["id"] != a.id:
            continue
        tmp = tempfile.mkdtemp(prefix="dreye_mut_")
        try:
            dst = os.path.join(tmp, "repo")
            shutil.copytree("/repo", dst, ignore=shutil.ignore_patterns(".git", "docs", "tutorials", "__pycache__", "*.feather", "*.npy"))
            ok_apply = True
            for ed in mu["edits"]:
                p = os.path.join(dst, ed["file"])
                s = open(p).read()
                if s.count(ed["old"]) != ed.get("count", 1):
                    ok_apply = False
                    print(f"[{mu['id']}] cannot apply: pattern occurs {s.count(ed['old'])}x in {ed['file']}")
                    break
                open(p, "w").write(s.replace(ed["old"], ed["new"]))
            if not ok_apply:
                res.append((mu, "APPLY-FAILED", ""))
                continue
            env = dict(os.environ, VERIF_REPO_ROOT=dst, VERIF_SEED=a.seed, VERIF_EVIDENCE_DIR=os.path.join(tmp, "ev"))
            r = subprocess.run([os.path.join(ROOT, "bin", "check"), mu["property"], "--tier", a.tier],
                               capture_output=True, text=True, env=env, cwd=ROOT)
            viol = [l for l in r.stdout.splitlines() if l.startswith("VIOLATION")]
            why = [l for l in r.stdout.splitlines() if l.startswith("  clause=")]
            status = "CAUGHT" if (r.returncode == 1 and viol) else f"MISSED(exit={r.returncode})"
            res.append((mu, status, (why[0] if why else "")[:160]))
            print(f"[{mu['property']}:{mu['id']}] {status} {(why[0] if why else '')[:160]}", flush=True)
        finally:
            shutil.rmtree(tmp, ignore_errors=True)
    missed = [m for m, s, _ in res if not s.startswith("CAUGHT")]
    print(f"{len(res) - len(missed)}/{len(res)} mutants caught")
    return 1 if missed else 0


if __name__ == "__main__":
    sys.exit(main())
