#!/venv/bin/python
"""Automatic mutation campaign (diagnostic, not a registered check): generate syntactic mutants of the functions a
property is anchored in, run that property's quick check against each mutant on a scratch copy of the repository and
list the SURVIVORS - places where a change of the code leaves no trace in what the monitor observes.  Survivors are
either equivalent / out-of-scope mutants (error branches, unreachable options) or gaps in the workload or oracle.

usage: selftest/automutate.py C16 [C19 ...] [--per-func 8] [--seed 0] [--out /tmp/automut.json] [--jobs 2]

Mutation operators (one AST node per mutant): comparison flips (< <=, > >=, == !=), arithmetic swaps (+ -, * /),
numeric constants (c -> c+1 for ints, c*2 / 0 for floats), True <-> False, min<->max / argmin<->argmax /
minimum<->maximum / sum->mean, `axis=k -> axis=0/-1`, dropped unary minus, `not` dropped, `and` <-> `or`.
"""
import argparse
import ast
import copy
import importlib
import inspect
import json
import os
import random
import shutil
import subprocess
import sys
import tempfile
import textwrap
from concurrent.futures import ThreadPoolExecutor

ROOT = os.path.dirname(os.path.dirname(os.path.abspath(__file__)))
REPO = "/repo"
sys.path.insert(0, ROOT)

SWAP_NAMES = {"min": "max", "max": "min", "argmin": "argmax", "argmax": "argmin", "minimum": "maximum",
              "maximum": "minimum", "nanmin": "nanmax", "nanmax": "nanmin", "sum": "mean", "all": "any", "any": "all",
              "floor": "ceil", "ceil": "floor", "zeros": "ones", "ones": "zeros"}
CMP = {ast.Lt: ast.LtE, ast.LtE: ast.Lt, ast.Gt: ast.GtE, ast.GtE: ast.Gt, ast.Eq: ast.NotEq, ast.NotEq: ast.Eq}
BIN = {ast.Add: ast.Sub, ast.Sub: ast.Add, ast.Mult: ast.Div, ast.Div: ast.Mult}


def candidates(fn_node):
    """[(description, mutate(node_copy))] for every mutable node inside the function (docstrings, asserts, raises and
    verification hooks excluded)."""
    out = []

    class V(ast.NodeVisitor):
        def generic_visit(self, node):
            if isinstance(node, (ast.Assert, ast.Raise)):
                return
            if isinstance(node, ast.If) and "_verif" in ast.unparse(node.test):
                return
            if isinstance(node, ast.Expr) and isinstance(node.value, ast.Constant) and isinstance(node.value.value, str):
                return
            super().generic_visit(node)

        def visit_Compare(self, node):
            for i, op in enumerate(node.ops):
                if type(op) in CMP:
                    out.append((node, f"compare {type(op).__name__}->{CMP[type(op)].__name__} @{node.lineno}", ("cmp", i)))
            self.generic_visit(node)

        def visit_BinOp(self, node):
            if type(node.op) in BIN:
                out.append((node, f"binop {type(node.op).__name__}->{BIN[type(node.op)].__name__} @{node.lineno}", ("bin",)))
            self.generic_visit(node)

        def visit_BoolOp(self, node):
            out.append((node, f"boolop {type(node.op).__name__} flipped @{node.lineno}", ("bool",)))
            self.generic_visit(node)

        def visit_UnaryOp(self, node):
            if isinstance(node.op, (ast.USub, ast.Not, ast.Invert)):
                out.append((node, f"unary {type(node.op).__name__} dropped @{node.lineno}", ("unary",)))
            self.generic_visit(node)

        def visit_Constant(self, node):
            v = node.value
            if isinstance(v, bool):
                out.append((node, f"const {v}->{not v} @{node.lineno}", ("const", not v)))
            elif isinstance(v, int) and abs(v) < 1000:
                out.append((node, f"const {v}->{v + 1} @{node.lineno}", ("const", v + 1)))
            elif isinstance(v, float):
                out.append((node, f"const {v}->{v * 2 if v else 1.0} @{node.lineno}", ("const", v * 2 if v else 1.0)))

        def visit_Attribute(self, node):
            if node.attr in SWAP_NAMES:
                out.append((node, f"name {node.attr}->{SWAP_NAMES[node.attr]} @{node.lineno}", ("attr",)))
            self.generic_visit(node)

        def visit_Name(self, node):
            if node.id in SWAP_NAMES and isinstance(node.ctx, ast.Load):
                out.append((node, f"name {node.id}->{SWAP_NAMES[node.id]} @{node.lineno}", ("name",)))

        def visit_keyword(self, node):
            if node.arg == "axis" and isinstance(node.value, (ast.Constant, ast.UnaryOp)):
                out.append((node, f"axis changed @{node.value.lineno}", ("axis",)))
            self.generic_visit(node)
    for stmt in fn_node.body:
        V().visit(stmt)
    return out


def apply(node, how):
    k = how[0]
    if k == "cmp":
        node.ops[how[1]] = CMP[type(node.ops[how[1]])]()
    elif k == "bin":
        node.op = BIN[type(node.op)]()
    elif k == "bool":
        node.op = ast.Or() if isinstance(node.op, ast.And) else ast.And()
    elif k == "unary":
        return node.operand
    elif k == "const":
        node.value = how[1]
    elif k == "attr":
        node.attr = SWAP_NAMES[node.attr]
    elif k == "name":
        node.id = SWAP_NAMES[node.id]
    elif k == "axis":
        try:
            cur = ast.literal_eval(node.value)
        except Exception:
            cur = None
        node.value = ast.Constant(0 if cur in (-1, 1) else -1)
    return node


def function_sources(pid):
    """[(relative file, qualname, first line, last line)] of the monitor's anchored functions."""
    os.environ.setdefault("DREYE_VERIF", "0")
    sys.path.insert(0, REPO)
    M = importlib.import_module("monitors." + pid.lower()).M
    out = []
    for modname, qual in M.anchors:
        try:
            ob = importlib.import_module(modname)
            for part in qual.split("."):
                ob = getattr(ob, part)
            ob = ob.fget if isinstance(ob, property) else ob
            ob = inspect.unwrap(ob)
            src, first = inspect.getsourcelines(ob)
            out.append((os.path.relpath(inspect.getsourcefile(ob), REPO), qual, first, first + len(src) - 1))
        except Exception as e:  # noqa
            print(f"  (anchor {modname}.{qual} not resolvable: {e})")
    return out


def mutants_for(pid, per_func, rnd):
    res = []
    for rel, qual, first, last in function_sources(pid):
        text = open(os.path.join(REPO, rel)).read()
        tree = ast.parse(text)
        target = None
        for node in ast.walk(tree):
            if isinstance(node, (ast.FunctionDef, ast.AsyncFunctionDef)) and node.lineno <= first + 3 and node.end_lineno == last \
                    and node.name == qual.split(".")[-1]:
                target = node
        if target is None:
            continue
        cands = candidates(target)
        idx = list(range(len(cands)))
        rnd.shuffle(idx)
        for j in idx[:per_func]:
            t2 = copy.deepcopy(tree)
            # locate the same node in the copy by position in a walk
            tnode = None
            for node in ast.walk(t2):
                if isinstance(node, (ast.FunctionDef, ast.AsyncFunctionDef)) and node.lineno == target.lineno and node.name == target.name:
                    tnode = node
            c2 = candidates(tnode)
            node, desc, how = c2[j]
            repl = apply(node, how)
            if repl is not node:   # unary dropped: replace in parent
                class R(ast.NodeTransformer):
                    def visit_UnaryOp(self, n):
                        self.generic_visit(n)
                        return repl if n is node else n
                t2 = R().visit(t2)
            ast.fix_missing_locations(t2)
            try:
                new_text = ast.unparse(t2)
                compile(new_text, rel, "exec")
            except Exception:
                continue
            res.append({"property": pid, "file": rel, "function": qual, "desc": desc, "text": new_text})
    return res


def run_one(mu, seed):
    tmp = tempfile.mkdtemp(prefix="dreye_amut_")
    try:
        dst = os.path.join(tmp, "repo")
        shutil.copytree(REPO, dst, ignore=shutil.ignore_patterns(".git", "docs", "tutorials", "__pycache__", "*.feather", "*.npy"))
        open(os.path.join(dst, mu["file"]), "w").write(mu["text"])
        env = dict(os.environ, VERIF_REPO_ROOT=dst, VERIF_SEED=str(seed), VERIF_EVIDENCE_DIR=os.path.join(tmp, "ev"))
        try:
            r = subprocess.run([os.path.join(ROOT, "bin", "check"), mu["property"]], capture_output=True, text=True, env=env,
                               cwd=ROOT, timeout=900)
            rc, outp = r.returncode, r.stdout
        except subprocess.TimeoutExpired:
            rc, outp = 99, ""
        viol = [l for l in outp.splitlines() if l.startswith("VIOLATION")]
        status = "killed" if (rc == 1 and viol) else ("inconclusive/harness" if rc in (2, 3, 99) else "SURVIVED")
        return status
    finally:
        shutil.rmtree(tmp, ignore_errors=True)


def main():
    ap = argparse.ArgumentParser()
    ap.add_argument("pids", nargs="+")
    ap.add_argument("--per-func", type=int, default=8)
    ap.add_argument("--seed", type=int, default=0)
    ap.add_argument("--jobs", type=int, default=2)
    ap.add_argument("--out", default="/tmp/automut.json")
    a = ap.parse_args()
    rnd = random.Random(a.seed)
    allres = []
    for pid in a.pids:
        muts = mutants_for(pid, a.per_func, rnd)
        print(f"== {pid}: {len(muts)} mutants", flush=True)
        with ThreadPoolExecutor(a.jobs) as ex:
            stats = list(ex.map(lambda m: run_one(m, a.seed), muts))
        for m, st in zip(muts, stats):
            rec = {k: m[k] for k in ("property", "file", "function", "desc")}
            rec["status"] = st
            allres.append(rec)
            if st != "killed":
                print(f"  {st:9s} {m['function']}: {m['desc']}", flush=True)
        k = sum(1 for s in stats if s == "killed")
        print(f"== {pid}: killed {k}/{len(muts)}", flush=True)
        json.dump(allres, open(a.out, "w"), indent=1)


if __name__ == "__main__":
    main()
