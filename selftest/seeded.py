#!/venv/bin/python
"""Runs the registered checks against the independently seeded defects kept under seeded/<name>/
(patch.diff + demo + meta.json).  Each patch is applied to a scratch copy of /repo under /tmp
(removed afterwards); the check of the property it breaks is run against the copy
(VERIF_REPO_ROOT).  Expected: exit 1 with a VIOLATION line.

usage: selftest/seeded.py [--only NAME] [--tier quick|thorough] [--demo]
"""
import argparse
import json
import os
import shutil
import subprocess
import sys
import tempfile

ROOT = os.path.dirname(os.path.dirname(os.path.abspath(__file__)))


def main():
    ap = argparse.ArgumentParser()
    ap.add_argument("--only")
    ap.add_argument("--tier", default="quick")
    ap.add_argument("--demo", action="store_true", help="also run the demonstration with and without the patch")
    ap.add_argument("--seed", default="0")
    ap.add_argument("--tests", action="store_true", help="also run the repository's tests on the patched copy (must stay 92 passed / 5 failed)")
    a = ap.parse_args()
    base = os.path.join(ROOT, "seeded")
    names = sorted(d for d in os.listdir(base) if os.path.isdir(os.path.join(base, d)))
    res = []
    for name in names:
        if a.only and a.only != name:
            continue
        d = os.path.join(base, name)
        meta = json.load(open(os.path.join(d, "meta.json")))
        pid = meta["property"]
        tmp = tempfile.mkdtemp(prefix="dreye_seeded_")
        try:
            dst = os.path.join(tmp, "repo")
            shutil.copytree("/repo", dst, ignore=shutil.ignore_patterns(".git", "docs", "tutorials", "__pycache__", "_seed"))
            demo0 = [f for f in os.listdir(d) if f.startswith("demo")][0]
            # demos assert that dreye is imported from their original worktree: point them at the scratch copy
            txt = open(os.path.join(d, demo0)).read()
            for wt in set(__import__("re").findall(r"/tmp/wt[0-9]*_C[0-9]+", txt)):
                txt = txt.replace(wt, dst)
            demo = os.path.join(tmp, "demo_run.py")
            open(demo, "w").write(txt)
            if a.demo:
                r0 = subprocess.run(["/venv/bin/python", "-W", "ignore", demo], cwd=dst, capture_output=True, text=True,
                                    env=dict(os.environ, PYTHONPATH=dst, SEED_WORKTREE=dst), timeout=600)
            r = subprocess.run(["patch", "-p1", "-s", "-i", os.path.join(d, "patch.diff")], cwd=dst, capture_output=True, text=True)
            if r.returncode != 0:
                print(f"[{name}] patch does not apply: {r.stdout[-300:]} {r.stderr[-300:]}")
                res.append((name, "APPLY-FAILED"))
                continue
            line = f"[{name}] property={pid}"
            if a.demo:
                r1 = subprocess.run(["/venv/bin/python", "-W", "ignore", demo], cwd=dst, capture_output=True, text=True,
                                    env=dict(os.environ, PYTHONPATH=dst, SEED_WORKTREE=dst), timeout=600)
                line += f" demo(without)={'pass' if r0.returncode == 0 else 'FAIL'} demo(with)={'fail' if r1.returncode != 0 else 'PASS'}"
            if a.tests:
                rt = subprocess.run(["/venv/bin/python", "-m", "pytest", "-q", "-p", "no:cacheprovider", "--timeout=900",
                                     "--continue-on-collection-errors"], cwd=dst, capture_output=True, text=True,
                                    env={k: v for k, v in os.environ.items() if k != "DREYE_VERIF"})
                tail = [l for l in rt.stdout.splitlines() if " passed" in l or " failed" in l][-1:]
                line += f" tests=[{tail[0].strip('= ') if tail else '?'}]"
            env = dict(os.environ, VERIF_REPO_ROOT=dst, VERIF_SEED=a.seed, VERIF_EVIDENCE_DIR=os.path.join(tmp, "ev"))
            rc = subprocess.run([os.path.join(ROOT, "bin", "check"), pid, "--tier", a.tier], capture_output=True, text=True, env=env, cwd=ROOT)
            viol = [l for l in rc.stdout.splitlines() if l.startswith("VIOLATION")]
            why = [l for l in rc.stdout.splitlines() if l.startswith("  clause=")]
            status = "CAUGHT" if (rc.returncode == 1 and viol) else f"MISSED(exit={rc.returncode})"
            res.append((name, status))
            print(f"{line} check[{a.tier}]={status} {(why[0] if why else '')[:150]}", flush=True)
        finally:
            shutil.rmtree(tmp, ignore_errors=True)
    missed = [n for n, s in res if s != "CAUGHT"]
    print(f"{len(res) - len(missed)}/{len(res)} seeded defects caught; missed: {missed}")
    return 1 if missed else 0


if __name__ == "__main__":
    sys.exit(main())
