#!/venv/bin/python
"""Diagnostic: run the quick tier of the given checks with reach counters on EVERY function of dreye.api.* and list, per
check, (a) functions that were entered and have unexecuted lines (with the source of those lines) and (b) nothing else.
Functions never entered are not listed (most belong to other properties).  Usage: selftest/reach_gaps.py C04 [C06 ...]"""
import json, os, subprocess, sys, tempfile, linecache, importlib, inspect
ROOT = os.path.dirname(os.path.dirname(os.path.abspath(__file__)))
REPO = os.environ.get("VERIF_REPO_ROOT", "/repo")
sys.path.insert(0, REPO)
os.environ.setdefault("DREYE_VERIF", "0")


def source_of(label):
    mod, _, qual = label.partition(".")
    for cand in ("dreye.api." + mod, "dreye.api.optimize." + mod, "dreye.api.units." + mod, "dreye.api.plotting." + mod):
        try:
            m = importlib.import_module(cand)
        except Exception:
            continue
        ob = m
        try:
            for part in qual.split("."):
                ob = getattr(ob, part)
            ob = ob.fget if isinstance(ob, property) else ob
            return inspect.getsourcefile(ob)
        except Exception:
            continue
    return None


for pid in sys.argv[1:]:
    ev = tempfile.mkdtemp(prefix="reach_")
    env = dict(os.environ, VERIF_REACH_ALL="1", VERIF_EVIDENCE_DIR=ev)
    subprocess.run([os.path.join(ROOT, "bin", "check"), pid], env=env, stdout=subprocess.DEVNULL, stderr=subprocess.DEVNULL)
    d = json.load(open(os.path.join(ev, pid + ".json")))
    print("=" * 30, pid)
    for lab, v in sorted(d["coverage"]["anchored_function_reach"].items()):
        miss = v.get("lines_not_executed", [])
        if v["calls"] == 0 or not miss:
            continue
        src = source_of(lab)
        print(f"-- {lab}: calls={v['calls']} unexecuted={len(miss)}/{v['lines_total']}")
        for ln in miss:
            txt = linecache.getline(src, ln).rstrip() if src else ""
            print(f"     {ln:5d} {txt[:130]}")
    subprocess.run(["rm", "-rf", ev])
